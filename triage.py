#!/usr/bin/env python3
import json,glob,sys
from collections import defaultdict
prop=sys.argv[1]; n=int(sys.argv[2]) if len(sys.argv)>2 else 6
by=defaultdict(list)
for f in glob.glob(f'/verif/replays/{prop}/*.json'):
    d=json.load(open(f)); by[d['sig'].split('|')[0]].append(d)
for k,v in by.items():
    v.sort(key=lambda d: len(d['sig']))
    print('=====',k,len(v))
    for d in v[:n]:
        det=d['detail']
        print('  ##',d['sig'].split('|',1)[1] if '|' in d['sig'] else '', 'case',d['case'])
        for key in ('sql','sql_a','sql_b','history'):
            if key in det: print('     %s:'%key,str(det[key])[:400])
        if 'tables' in det: print('     tables:',[ (t['create'][13:16], t['rows']) for t in det['tables']])
        for key in ('vibesql','reference','a','b','expected','got','note'):
            if key in det: print('     %s:'%key,str(det[key])[:160])
