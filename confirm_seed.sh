#!/bin/bash
# usage: confirm_seed.sh <ID> <pkg> <demo-src> <demo-dest-rel> <demo-test-args...>
# In the scratch worktree /tmp/confirm (at /repo HEAD): demo passes without the patch, fails with it, and the
# existing tests of <pkg> fail exactly the tests that already fail at HEAD (baseline cached per package).
ID="$1"; PKG="$2"; DEMO_SRC="$3"; DEMO_DEST="$4"; shift 4
W=/tmp/confirm; mkdir -p /tmp/confirm_logs; LOG=/tmp/confirm_logs/$ID.log; : > $LOG
export RUSTC_WRAPPER= CARGO_TARGET_DIR=/tmp/confirm_target CARGO_NET_OFFLINE=true RUST_MIN_STACK=67108864
cd $W || exit 2
git checkout -q --detach $(git -C /repo rev-parse HEAD) 2>>$LOG; git checkout -- . ; git clean -fdq -e target
PATCH=/verif/seeded/$ID/patch.diff
git apply --check $PATCH 2>>$LOG || { echo "RESULT $ID PATCH-DOES-NOT-APPLY" | tee -a $LOG; exit 1; }
failed_set() { grep -E "^test .* \.\.\. FAILED" "$1" | sort -u; }
HEADREV=$(git rev-parse --short HEAD)
BASE=/tmp/confirm_logs/baseline_${PKG}.txt
if [ ! -f $BASE ]; then
  cargo test -p $PKG --offline --no-fail-fast -j 8 > /tmp/confirm_logs/baseline_${PKG}.log 2>&1
  failed_set /tmp/confirm_logs/baseline_${PKG}.log > $BASE
  grep -c "^test result" /tmp/confirm_logs/baseline_${PKG}.log >> $LOG
fi
mkdir -p "$(dirname $DEMO_DEST)"; cp -r $DEMO_SRC $DEMO_DEST
echo "== demo WITHOUT patch (expect pass)" >> $LOG
if cargo test -p $PKG --offline -j 8 "$@" >>$LOG 2>&1; then R0=pass; else R0=fail; fi
git apply $PATCH
echo "== demo WITH patch (expect fail)" >> $LOG
if cargo test -p $PKG --offline -j 8 "$@" >>$LOG 2>&1; then R1=pass; else R1=fail; fi
echo "== existing tests of $PKG WITH patch" >> $LOG
rm -rf $DEMO_DEST
cargo test -p $PKG --offline --no-fail-fast -j 8 > /tmp/confirm_logs/$ID.existing.log 2>&1
failed_set /tmp/confirm_logs/$ID.existing.log > /tmp/confirm_logs/$ID.failed.txt
NRES=$(grep -c "^test result" /tmp/confirm_logs/$ID.existing.log)
if diff -q $BASE /tmp/confirm_logs/$ID.failed.txt >/dev/null && [ "$NRES" -gt 0 ]; then R2=same-as-baseline; else R2=DIFFERS; fi
git checkout -- . ; git clean -fdq -e target
echo "RESULT $ID demo_without=$R0 demo_with=$R1 existing_with_patch=$R2 (baseline failing tests: $(wc -l < $BASE), test binaries: $NRES)" | tee -a $LOG
