#!/usr/bin/env python3
"""Compare a `cargo test --workspace` log with BASELINE.json's stable_pass list.
usage: compare_baseline.py <cargo-test-log>"""
import json,re,sys,collections
b=json.load(open('/root/.vp/BASELINE.json'))
stable=set(b['stable_pass'])
log=open(sys.argv[1],errors='replace').read().splitlines()
cur=None; res={}
for l in log:
    m=re.search(r'Running (?:unittests )?\S+ \(target/debug/deps/([A-Za-z0-9_]+)-[0-9a-f]+\)',l)
    if m: cur=m.group(1); continue
    m=re.match(r'\s*Doc-tests (\S+)',l)
    if m: cur='doctest:'+m.group(1).replace('-','_'); continue
    m=re.match(r'test (.+?) \.\.\. (ok|FAILED|ignored)',l)
    if m and cur:
        name=m.group(1)
        if cur.startswith('doctest:'):
            # "crates/x/src/lib.rs - module (line 12)" style
            name=name.strip()
        res[f'{cur}::{name}']=m.group(2)
passed={k for k,v in res.items() if v=='ok'}
missing=[s for s in stable if s not in passed]
# doctest names differ in format; try loose match
loose=[]
for s in list(missing):
    if s.startswith('doctest:'):
        key=s.split('::',1)[1]
        if any(k.startswith(s.split('::')[0]) and key in k and v=='ok' for k,v in res.items()):
            missing.remove(s)
print('tests seen',len(res),'passed',len(passed),'stable_pass',len(stable),'stable not passing now',len(missing))
for s in sorted(missing)[:60]: print('  MISSING/FAILED:',s,res.get(s))
