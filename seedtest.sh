#!/bin/bash
# usage: seedtest.sh <patch> <ID> [tier] [seed]  — apply a seeded change to /repo, run one check, undo.
P="$1"; ID="$2"; TIER="${3:-quick}"; export VERIF_SEED="${4:-1}"
cd /repo || exit 2
if [ -n "$(git status --porcelain --untracked-files=no)" ]; then echo "repo dirty"; exit 2; fi
git apply "$P" || { echo "patch does not apply"; exit 2; }
cd /verif && ./check "$ID" "$TIER" 2>&1 | grep -v "^  sig\|overflowed its stack\|fatal runtime\|^$" | cut -c1-160 | tail -25
cd /repo && git checkout -- . && echo "[reverted]"
