#!/bin/bash
# Build the framework offline from files on disk. Run once after a fresh restore.
set -u
ROOT="$(cd "$(dirname "$0")" && pwd)"
export CARGO_NET_OFFLINE=true
mkdir -p "$ROOT/target" "$ROOT/evidence" "$ROOT/replays"
cd "$ROOT/harness" && cargo build --offline 2>&1 | tail -3
[ -x "$ROOT/target/harness/debug/vverif" ] || { echo "setup: harness build failed"; exit 1; }
# the Python extension used by C30 (checks.d/C30.sh rebuilds it incrementally on every run)
(cd /repo && RUSTC_WRAPPER= CARGO_TARGET_DIR="$ROOT/target/py" cargo build --offline -p vibesql-python-bindings 2>&1 | tail -1) || echo "setup: python extension build failed (C30 will report inconclusive)"
if [ -x "$ROOT/setup.d/extra.sh" ]; then "$ROOT/setup.d/extra.sh" || exit 1; fi
echo "setup ok"
