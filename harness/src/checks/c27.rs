//! C27 — frontend message decoding is safe and respects framing.

use std::collections::HashMap;

use bytes::{BufMut, BytesMut};
use serde_json::json;

use crate::core::ctx::Ctx;
use crate::core::rng::Rng;
use crate::core::session::guard;
use crate::core::util::panic_class;
use crate::server::messages::FrontendMessage;

fn rand_text(rng: &mut Rng, allow_empty: bool) -> String {
    let pool = ["SELECT 1", "a", "é", "日本", "x y", "'q'", ";", "user", "database", "😀", "\u{1}"];
    let n = if allow_empty { rng.range(0, 3) } else { rng.range(1, 3) };
    let mut s = String::new();
    for _ in 0..n {
        s.push_str(*rng.pick(&pool));
    }
    s
}

#[derive(Clone, Debug)]
enum Msg {
    Query(String),
    Password(String),
    Terminate,
}

fn encode_regular(m: &Msg, out: &mut Vec<u8>) {
    let (ty, body): (u8, Vec<u8>) = match m {
        Msg::Query(q) => (b'Q', [q.as_bytes(), &[0]].concat()),
        Msg::Password(p) => (b'p', [p.as_bytes(), &[0]].concat()),
        Msg::Terminate => (b'X', vec![]),
    };
    out.push(ty);
    out.extend_from_slice(&((body.len() + 4) as i32).to_be_bytes());
    out.extend_from_slice(&body);
}

fn matches_msg(m: &Msg, f: &FrontendMessage) -> bool {
    match (m, f) {
        (Msg::Query(a), FrontendMessage::Query { query }) => a == query,
        (Msg::Password(a), FrontendMessage::Password { password }) => a == password,
        (Msg::Terminate, FrontendMessage::Terminate) => true,
        _ => false,
    }
}

fn rand_msg(rng: &mut Rng) -> Msg {
    match rng.below(5) {
        0 | 1 => Msg::Query(rand_text(rng, true)),
        2 | 3 => Msg::Password(rand_text(rng, true)),
        _ => Msg::Terminate,
    }
}

pub fn run(ctx: &mut Ctx) {
    let total = ctx.n(800, 400_000);
    for case in ctx.my_cases(total) {
        ctx.begin_case(case);
        let mut rng = ctx.rng(case);
        match case % 4 {
            0 => wellformed_stream(ctx, case, &mut rng),
            1 => prefixes(ctx, case, &mut rng),
            2 => hostile_regular(ctx, case, &mut rng),
            _ => startup(ctx, case, &mut rng),
        }
    }
}

/// Concatenated well-formed frames decode one by one; each decode consumes exactly its frame.
fn wellformed_stream(ctx: &mut Ctx, case: u64, rng: &mut Rng) {
    let msgs: Vec<Msg> = (0..rng.range(1, 6)).map(|_| rand_msg(rng)).collect();
    let mut bytes = Vec::new();
    let mut ends = Vec::new();
    for m in &msgs {
        encode_regular(m, &mut bytes);
        ends.push(bytes.len());
    }
    // trailing garbage that is not a full frame header must stay untouched
    let tail: Vec<u8> = (0..rng.range(0, 4)).map(|_| rng.below(256) as u8).collect();
    bytes.extend_from_slice(&tail);
    let mut buf = BytesMut::from(&bytes[..]);
    let mut consumed = 0usize;
    for (i, m) in msgs.iter().enumerate() {
        ctx.eval();
        let before = buf.len();
        let r = guard(|| FrontendMessage::decode(&mut buf));
        let kind = format!("{:?}", std::mem::discriminant(m));
        match r {
            Err(p) => {
                ctx.violation(case, format!("panic:decode:{}", panic_class(&p)), json!({"stream": bytes, "frame": i, "panic": p}));
                return;
            }
            Ok(Ok(Some(f))) => {
                consumed += before - buf.len();
                if !matches_msg(m, &f) {
                    ctx.violation(case, "wellformed:wrong-message", json!({"stream": bytes, "frame": i, "want": format!("{:?}", m), "got": format!("{:?}", f)}));
                    return;
                }
                if consumed != ends[i] {
                    ctx.violation(case, "wellformed:consumed-not-frame", json!({"stream": bytes, "frame": i, "consumed_total": consumed, "frame_end": ends[i]}));
                    return;
                }
                if buf[..] != bytes[ends[i]..] {
                    ctx.violation(case, "wellformed:following-bytes-altered", json!({"stream": bytes, "frame": i}));
                    return;
                }
                ctx.nontrivial(format!("wf:{}:pos{}:of{}:tail{}", kind, i, msgs.len(), tail.len()));
            }
            Ok(other) => {
                ctx.violation(case, "wellformed:not-decoded", json!({"stream": bytes, "frame": i, "want": format!("{:?}", m), "got": format!("{:?}", other)}));
                return;
            }
        }
    }
    ctx.sample(|| json!({"kind": "wellformed-stream", "messages": msgs.iter().map(|m| format!("{:?}", m)).collect::<Vec<_>>(), "bytes": bytes.len()}));
}

/// Every strict prefix of a single valid frame must ask for more bytes and consume nothing.
fn prefixes(ctx: &mut Ctx, case: u64, rng: &mut Rng) {
    let m = rand_msg(rng);
    let mut bytes = Vec::new();
    encode_regular(&m, &mut bytes);
    for cut in 0..bytes.len() {
        ctx.eval();
        let mut buf = BytesMut::from(&bytes[..cut]);
        match guard(|| FrontendMessage::decode(&mut buf)) {
            Err(p) => ctx.violation(case, format!("panic:decode:{}", panic_class(&p)), json!({"prefix": &bytes[..cut], "panic": p})),
            Ok(Ok(None)) => {
                if buf.len() != cut {
                    ctx.violation(case, "prefix:consumed-on-need-more", json!({"prefix": &bytes[..cut]}));
                }
                ctx.nontrivial(format!("prefix:{:?}:cut{}", std::mem::discriminant(&m), cut.min(12)));
            }
            Ok(other) => ctx.violation(case, "prefix:not-need-more", json!({"prefix": &bytes[..cut], "full": bytes, "got": format!("{:?}", other)})),
        }
    }
    // startup prefixes
    let mut sb = Vec::new();
    encode_startup(&[("user".to_string(), rand_text(rng, false))], 196608, &mut sb);
    for cut in 0..sb.len() {
        ctx.eval();
        let mut buf = BytesMut::from(&sb[..cut]);
        match guard(|| FrontendMessage::decode_startup(&mut buf)) {
            Err(p) => ctx.violation(case, format!("panic:decode_startup:{}", panic_class(&p)), json!({"prefix": &sb[..cut], "panic": p})),
            Ok(Ok(None)) => {
                if buf.len() != cut {
                    ctx.violation(case, "prefix:consumed-on-need-more", json!({"prefix": &sb[..cut]}));
                }
                ctx.nontrivial(format!("prefix:startup:cut{}", cut.min(12)));
            }
            Ok(other) => ctx.violation(case, "prefix:startup-not-need-more", json!({"prefix": &sb[..cut], "got": format!("{:?}", other)})),
        }
    }
}

fn len_choices(rng: &mut Rng, true_len: i32) -> i32 {
    let c = [-1, i32::MIN, 0, 1, 2, 3, 4, 5, 6, 7, 8, true_len - 2, true_len - 1, true_len, true_len + 1, true_len + 7, i32::MAX, 0x0100_0000];
    *rng.pick(&c)
}

/// A first frame with a hostile length / terminator layout, followed by a well-formed frame.
/// Whatever decode does with the first frame, it must not panic and must not eat bytes past
/// 1 + declared length (declared length taken as written when it is >= 0).
fn hostile_regular(ctx: &mut Ctx, case: u64, rng: &mut Rng) {
    let ty = *rng.pick(&[b'Q', b'p', b'X', b'Q', b'p', b'Z', 0u8, 0xFF]);
    // payload with missing / early / late terminators
    let mut payload: Vec<u8> = rand_text(rng, true).into_bytes();
    let layout = rng.below(5);
    match layout {
        0 => payload.push(0),                        // proper terminator
        1 => {}                                      // no terminator inside the frame
        2 => {
            let p = rng.usize(payload.len() + 1);
            payload.insert(p, 0);
            payload.push(0)
        } // early NUL
        3 => payload.extend_from_slice(&[0xC3, 0x28, 0]), // invalid UTF-8
        _ => payload.clear(),
    }
    let true_len = payload.len() as i32 + 4;
    let declared = len_choices(rng, true_len);
    let mut bytes = vec![ty];
    bytes.extend_from_slice(&declared.to_be_bytes());
    bytes.extend_from_slice(&payload);
    let first_end_declared: Option<usize> = if declared >= 0 { Some(1 + declared as usize) } else { None };
    let follower = Msg::Query("SELECT 42".into());
    let follow_at = bytes.len();
    encode_regular(&follower, &mut bytes);
    let mut buf = BytesMut::from(&bytes[..]);
    ctx.eval();
    let before = buf.len();
    let r = guard(|| FrontendMessage::decode(&mut buf));
    let shape = format!("ty{}:layout{}:len{}", ty, layout, match declared { d if d < 0 => "neg".to_string(), d if d < 4 => format!("{}", d), d if d == true_len => "exact".into(), d if d < true_len => "short".into(), d if d > 1 << 20 => "huge".into(), _ => "long".into() });
    match r {
        Err(p) => ctx.violation(case, format!("panic:decode:{}", panic_class(&p)), json!({"stream": bytes, "shape": shape, "panic": p})),
        Ok(res) => {
            let consumed = before - buf.len();
            ctx.nontrivial(format!("hostile:{}:{}", shape, match &res { Ok(Some(_)) => "msg", Ok(None) => "more", Err(_) => "err" }));
            if let Ok(None) = &res {
                if consumed != 0 {
                    ctx.violation(case, "hostile:consumed-on-need-more", json!({"stream": bytes, "shape": shape, "consumed": consumed}));
                }
            }
            if let Some(end) = first_end_declared {
                if consumed > end.max(5) {
                    ctx.violation(
                        case,
                        format!("hostile:consumed-beyond-frame:{}", if layout == 1 || layout == 4 { "missing-terminator" } else if declared < 4 { "length-below-4" } else if declared < true_len { "short-length" } else { "other" }),
                        json!({"stream": bytes, "shape": shape, "declared_len": declared, "frame_end": end, "consumed": consumed, "result": format!("{:?}", res)}),
                    );
                }
            }
            // When the first frame was perfectly well-formed, the follower must decode intact.
            if layout == 0 && declared == true_len && matches!(ty, b'Q' | b'p') {
                let r2 = guard(|| FrontendMessage::decode(&mut buf));
                match r2 {
                    Ok(Ok(Some(f))) if matches_msg(&follower, &f) => {}
                    other => ctx.violation(case, "hostile:follower-damaged", json!({"stream": bytes, "follow_at": follow_at, "got": format!("{:?}", other)})),
                }
            }
        }
    }
    ctx.sample(|| json!({"kind": "hostile-frame", "shape": shape, "bytes": bytes}));
}

fn encode_startup(params: &[(String, String)], version: i32, out: &mut Vec<u8>) {
    let mut body = Vec::new();
    body.extend_from_slice(&version.to_be_bytes());
    for (k, v) in params {
        body.extend_from_slice(k.as_bytes());
        body.push(0);
        body.extend_from_slice(v.as_bytes());
        body.push(0);
    }
    body.push(0);
    out.extend_from_slice(&((body.len() + 4) as i32).to_be_bytes());
    out.extend_from_slice(&body);
}

fn startup(ctx: &mut Ctx, case: u64, rng: &mut Rng) {
    // well-formed startup followed by a regular frame
    let mut params: Vec<(String, String)> = Vec::new();
    let mut seen = std::collections::BTreeSet::new();
    for _ in 0..rng.range(0, 4) {
        let k = rand_text(rng, false);
        if seen.insert(k.clone()) {
            params.push((k, rand_text(rng, true)));
        }
    }
    let ssl = rng.chance(1, 6);
    let mut bytes = Vec::new();
    if ssl {
        bytes.extend_from_slice(&8i32.to_be_bytes());
        bytes.extend_from_slice(&80877103i32.to_be_bytes());
    } else {
        encode_startup(&params, 196608, &mut bytes);
    }
    let hostile = rng.chance(1, 2);
    let mut shape = format!("startup:ssl{}:params{}", ssl, params.len());
    if hostile {
        // overwrite the length, or drop terminators
        let true_len = bytes.len() as i32;
        let declared = len_choices(rng, true_len);
        bytes[0..4].copy_from_slice(&declared.to_be_bytes());
        if rng.chance(1, 3) && bytes.len() > 9 {
            let l = bytes.len();
            bytes.truncate(l - 1); // remove final terminator
        }
        shape = format!("{}:hostile-len{}", shape, match declared { d if d < 0 => "neg".to_string(), d if d < 8 => format!("{}", d), d if d == true_len => "exact".into(), d if d < true_len => "short".into(), d if d > 1 << 20 => "huge".into(), _ => "long".into() });
    }
    let declared = i32::from_be_bytes([bytes[0], bytes[1], bytes[2], bytes[3]]);
    let follow_at = bytes.len();
    let follower = Msg::Query("SELECT 7".into());
    encode_regular(&follower, &mut bytes);
    let mut buf = BytesMut::from(&bytes[..]);
    ctx.eval();
    let before = buf.len();
    match guard(|| FrontendMessage::decode_startup(&mut buf)) {
        Err(p) => ctx.violation(case, format!("panic:decode_startup:{}", panic_class(&p)), json!({"stream": bytes, "shape": shape, "panic": p})),
        Ok(res) => {
            let consumed = before - buf.len();
            ctx.nontrivial(format!("{}:{}", shape, match &res { Ok(Some(_)) => "msg", Ok(None) => "more", Err(_) => "err" }));
            if let Ok(None) = &res {
                if consumed != 0 {
                    ctx.violation(case, "startup:consumed-on-need-more", json!({"stream": bytes, "shape": shape}));
                }
            }
            if declared >= 0 && consumed > (declared as usize).max(8) {
                ctx.violation(case, "startup:consumed-beyond-frame", json!({"stream": bytes, "shape": shape, "declared": declared, "consumed": consumed, "result": format!("{:?}", res)}));
            }
            // a decoded message owns exactly its declared frame, and a frame shorter than the fixed
            // header cannot carry one
            if let Ok(Some(_)) = &res {
                if declared < 8 {
                    ctx.violation(case, "startup:message-from-too-short-frame", json!({"stream": bytes, "shape": shape, "declared": declared, "consumed": consumed, "result": format!("{:?}", res)}));
                } else if consumed != declared as usize {
                    ctx.violation(case, "startup:message-but-frame-not-consumed-exactly", json!({"stream": bytes, "shape": shape, "declared": declared, "consumed": consumed, "result": format!("{:?}", res)}));
                }
            }
            if !hostile {
                let ok = match &res {
                    Ok(Some(FrontendMessage::SSLRequest)) => ssl,
                    Ok(Some(FrontendMessage::Startup { protocol_version, params: got })) => {
                        let want: HashMap<String, String> = params.iter().cloned().collect();
                        !ssl && *protocol_version == 196608 && *got == want
                    }
                    _ => false,
                };
                if !ok {
                    ctx.violation(case, "startup:wellformed-wrong", json!({"stream": bytes, "params": params, "got": format!("{:?}", res)}));
                } else if consumed != follow_at {
                    ctx.violation(case, "startup:wellformed-consumed-not-frame", json!({"stream": bytes, "consumed": consumed, "frame": follow_at}));
                } else {
                    match guard(|| FrontendMessage::decode(&mut buf)) {
                        Ok(Ok(Some(f))) if matches_msg(&follower, &f) => {}
                        other => ctx.violation(case, "startup:follower-damaged", json!({"stream": bytes, "got": format!("{:?}", other)})),
                    }
                }
            }
        }
    }
    let _ = BytesMut::new().put_u8(0);
}
