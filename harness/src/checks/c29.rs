//! C29 — password authentication accepts exactly the right credentials.

use md5::{Digest, Md5};
use serde_json::json;

use crate::core::ctx::Ctx;
use crate::core::rng::Rng;
use crate::core::session::guard;
use crate::core::util::panic_class;
use crate::server::password::PasswordStore;

#[derive(Clone, Debug, PartialEq)]
enum Secret {
    Argon(String),
    Md5(String),
    Other(String),
}

fn md5hex(parts: &[&[u8]]) -> String {
    let mut h = Md5::new();
    for p in parts {
        h.update(p);
    }
    h.finalize().iter().map(|b| format!("{:02x}", b)).collect()
}

/// PostgreSQL: "md5" + md5hex(md5hex(password || user) || salt)
fn pg_md5(password: &str, user: &str, salt: &[u8; 4]) -> String {
    let inner = md5hex(&[password.as_bytes(), user.as_bytes()]);
    format!("md5{}", md5hex(&[inner.as_bytes(), salt]))
}

fn word(rng: &mut Rng) -> String {
    let pool = ["", "a", "A", "pw", "secret", "Secret", "secret ", " secret", "sécret", "日本", "p:w", "p#w", "$x", "{MD5}", "md5", "$argon2id$", "0", "\u{0}", "😀", "pass word"];
    let mut s = rng.pick(&pool).to_string();
    if rng.chance(1, 3) {
        s.push_str(*rng.pick(&pool));
    }
    s
}

fn near_misses(rng: &mut Rng, pw: &str) -> Vec<(String, &'static str)> {
    let mut v = vec![
        (format!("{} ", pw), "trailing-space"),
        (format!(" {}", pw), "leading-space"),
        (pw.to_uppercase(), "upper"),
        (pw.to_lowercase(), "lower"),
        (format!("{}\u{0}", pw), "trailing-nul"),
        (format!("{}x", pw), "extended"),
        (String::new(), "empty"),
    ];
    if !pw.is_empty() {
        let c: Vec<char> = pw.chars().collect();
        v.push((c[..c.len() - 1].iter().collect(), "prefix"));
        v.push((c[1..].iter().collect(), "suffix"));
    }
    v.retain(|(s, _)| s != pw);
    rng.shuffle(&mut v);
    v.truncate(3);
    v
}

pub fn run(ctx: &mut Ctx) {
    let total = ctx.n(48, 1600);
    for case in ctx.my_cases(total) {
        ctx.begin_case(case);
        let mut rng = ctx.rng(case);
        one_store(ctx, case, &mut rng);
    }
}

fn one_store(ctx: &mut Ctx, case: u64, rng: &mut Rng) {
    let mut store = PasswordStore::new();
    let mut model: Vec<(String, Secret)> = Vec::new();
    let via_file = rng.chance(1, 3);
    if via_file {
        // representable subset of the documented file format
        let mut lines = vec!["# comment".to_string(), String::new()];
        for i in 0..2 {
            let user = format!("{}{}", ["alice", "bob", "u-é", "Al ice"][rng.usize(4)], i);
            let pw = loop {
                let w = word(rng);
                let t = w.trim();
                if !t.is_empty() && t == w && !w.starts_with("$argon2") && !w.starts_with("{MD5}") && !w.contains('\n') && !w.contains('\u{0}') {
                    break w;
                }
            };
            if rng.chance(1, 2) {
                lines.push(format!("{}:{}", user, pw));
                model.push((user, Secret::Argon(pw)));
            } else {
                lines.push(format!("{}:{{MD5}}{}", user, pw));
                model.push((user, Secret::Md5(pw)));
            }
        }
        let path = std::env::temp_dir().join(format!("vverif_c29_{}_{}.pw", std::process::id(), case));
        std::fs::write(&path, lines.join("\n")).unwrap();
        let r = guard(|| PasswordStore::load_from_file(&path));
        let _ = std::fs::remove_file(&path);
        match r {
            Ok(Ok(s)) => store = s,
            Ok(Err(e)) => {
                ctx.violation(case, "load_from_file:rejects-documented-format", json!({"file": lines, "err": e.to_string()}));
                return;
            }
            Err(p) => {
                ctx.violation(case, format!("panic:load_from_file:{}", panic_class(&p)), json!({"file": lines, "panic": p}));
                return;
            }
        }
    } else {
        for i in 0..2 {
            let user = format!("{}{}", word(rng), i);
            let pw = word(rng);
            match rng.below(4) {
                0 | 1 => {
                    if let Err(p) = guard(|| store.add_user(user.clone(), &pw).unwrap()) {
                        ctx.violation(case, format!("panic:add_user:{}", panic_class(&p)), json!({"user": user, "pw": pw, "panic": p}));
                        return;
                    }
                    model.push((user, Secret::Argon(pw)));
                }
                2 => {
                    store.add_user_hashed(user.clone(), format!("{{MD5}}{}", pw));
                    model.push((user, Secret::Md5(pw)));
                }
                _ => {
                    let raw = [pw.clone(), format!("md5{}", md5hex(&[pw.as_bytes()])), "$argon2id$garbage".to_string(), String::new()][rng.usize(4)].clone();
                    store.add_user_hashed(user.clone(), raw.clone());
                    model.push((user, if let Some(p) = raw.strip_prefix("{MD5}") { Secret::Md5(p.to_string()) } else { Secret::Other(raw) }));
                }
            }
        }
    }
    // later insert wins for duplicate names
    let lookup = |u: &str| model.iter().rev().find(|(n, _)| n == u).map(|(_, s)| s.clone());

    let users: Vec<String> = model.iter().map(|(u, _)| u.clone()).chain(["nobody".to_string(), String::new()]).collect();
    for u in &users {
        let secret = lookup(u);
        let kind = match &secret { Some(Secret::Argon(_)) => "argon", Some(Secret::Md5(_)) => "md5", Some(Secret::Other(_)) => "other", None => "unknown-user" };
        // cleartext attempts
        let true_pw = match &secret { Some(Secret::Argon(p)) | Some(Secret::Md5(p)) | Some(Secret::Other(p)) => p.clone(), None => "secret".to_string() };
        let mut attempts: Vec<(String, &'static str)> = vec![(true_pw.clone(), "exact")];
        attempts.extend(near_misses(rng, &true_pw));
        if let Some((_, Secret::Argon(other))) = model.iter().find(|(n, _)| n != u) {
            attempts.push((other.clone(), "other-users-password"));
        }
        for (attempt, what) in attempts {
            ctx.eval();
            let want = matches!(&secret, Some(Secret::Argon(p)) if *p == attempt);
            match guard(|| store.verify_cleartext(u, &attempt)) {
                Ok(got) => {
                    if got != want {
                        ctx.violation(
                            case,
                            format!("cleartext:{}:{}:{}", if got { "accepts-wrong" } else { "rejects-right" }, kind, what),
                            json!({"user": u, "stored": format!("{:?}", secret), "presented": attempt, "via_file": via_file}),
                        );
                    }
                    ctx.nontrivial(format!("clear:{}:{}:{}:file={}", kind, what, want, via_file));
                }
                Err(p) => ctx.violation(case, format!("panic:verify_cleartext:{}", panic_class(&p)), json!({"user": u, "presented": attempt, "panic": p})),
            }
        }
        // md5 attempts
        let salt = [rng.below(256) as u8, rng.below(256) as u8, 0, 255];
        let right = pg_md5(&true_pw, u, &salt);
        let other_salt = pg_md5(&true_pw, u, &[salt[0] ^ 1, salt[1], salt[2], salt[3]]);
        let wrong_user = pg_md5(&true_pw, &format!("{}x", u), &salt);
        let wrong_pw = pg_md5(&format!("{}x", true_pw), u, &salt);
        let inner_only = format!("md5{}", md5hex(&[true_pw.as_bytes(), u.as_bytes()]));
        let responses: Vec<(String, &'static str, bool)> = vec![
            (right.clone(), "exact", true),
            (right.to_uppercase().replacen("MD5", "md5", 1), "uppercase-hex", false),
            (right[..right.len() - 1].to_string(), "truncated", false),
            (format!("{}0", right), "extended", false),
            (format!("md5{}", right), "double-prefix", false),
            (other_salt, "other-salt", false),
            (wrong_user, "other-user", false),
            (wrong_pw, "wrong-password", false),
            (inner_only, "inner-hash-only", false),
            (true_pw.clone(), "cleartext-as-response", false),
            (String::new(), "empty", false),
            ("md5".to_string(), "prefix-only", false),
        ];
        for (resp, what, is_right) in responses {
            ctx.eval();
            let want = is_right && matches!(&secret, Some(Secret::Md5(_)));
            // a response that happens to coincide with the right digest is right
            let want = want || (matches!(&secret, Some(Secret::Md5(_))) && resp == right);
            match guard(|| store.verify_md5(u, &resp, &salt)) {
                Ok(got) => {
                    if got != want {
                        ctx.violation(
                            case,
                            format!("md5:{}:{}:{}", if got { "accepts-wrong" } else { "rejects-right" }, kind, what),
                            json!({"user": u, "stored": format!("{:?}", secret), "response": resp, "salt": salt, "expected_digest": right}),
                        );
                    }
                    ctx.nontrivial(format!("md5:{}:{}:{}", kind, what, want));
                }
                Err(p) => ctx.violation(case, format!("panic:verify_md5:{}", panic_class(&p)), json!({"user": u, "response": resp, "panic": p})),
            }
        }
    }
    ctx.sample(|| json!({"kind": "store", "via_file": via_file, "users": model.iter().map(|(u, s)| format!("{:?} -> {:?}", u, s)).collect::<Vec<_>>()}));
}
