//! State/history family on one shared history generator:
//! C09 (DML hits exactly the selected rows), C10 (declared constraints hold after every statement),
//! C11 (failed DML leaves the database unchanged; fault enumeration over row positions),
//! C15 (index structures mirror table contents).

use std::collections::BTreeMap;

use serde_json::json;
use vibesql_types::SqlValue;

use crate::core::canon::{multiset_eq, rows_eq, show_rows, CRow, Canon};
use crate::core::ctx::Ctx;
use crate::core::rng::Rng;
use crate::core::session::{Outcome, Session};
use crate::core::util::panic_class;

#[derive(Clone, Copy, PartialEq, Debug)]
pub enum Mode {
    C09,
    C10,
    C11,
    C15,
}

#[derive(Clone)]
struct Schema {
    name: &'static str,
    create: &'static str,
    /// output order of `SELECT id, a, b, c` is used everywhere, independent of physical order
    pk: &'static [usize], // indices into (id, a, b, c)
    unique: &'static [usize],
    not_null: &'static [usize],
    check_b_nonneg: bool,
    /// physical column order -> logical (id,a,b,c) index
    physical: &'static [usize],
}

const SCHEMAS: [Schema; 7] = [
    Schema { name: "pk-id", create: "CREATE TABLE t (id INTEGER PRIMARY KEY, a INTEGER, b INTEGER, c VARCHAR(10))", pk: &[0], unique: &[], not_null: &[], check_b_nonneg: false, physical: &[0, 1, 2, 3] },
    Schema { name: "no-pk", create: "CREATE TABLE t (id INTEGER, a INTEGER, b INTEGER, c VARCHAR(10))", pk: &[], unique: &[], not_null: &[], check_b_nonneg: false, physical: &[0, 1, 2, 3] },
    Schema { name: "pk-second-column", create: "CREATE TABLE t (a INTEGER, id INTEGER PRIMARY KEY, b INTEGER, c VARCHAR(10))", pk: &[0], unique: &[], not_null: &[], check_b_nonneg: false, physical: &[1, 0, 2, 3] },
    Schema { name: "pk-composite", create: "CREATE TABLE t (id INTEGER, a INTEGER, b INTEGER, c VARCHAR(10), PRIMARY KEY (id, a))", pk: &[0, 1], unique: &[], not_null: &[], check_b_nonneg: false, physical: &[0, 1, 2, 3] },
    // column c is a DATE: values arrive as strings and are converted (or refused) by the executor
    Schema { name: "date-column", create: "CREATE TABLE t (id INTEGER PRIMARY KEY, a INTEGER, b INTEGER, c DATE)", pk: &[0], unique: &[], not_null: &[], check_b_nonneg: false, physical: &[0, 1, 2, 3] },
    Schema { name: "two-uniques", create: "CREATE TABLE t (id INTEGER PRIMARY KEY, a INTEGER, b INTEGER, c VARCHAR(10), UNIQUE (a), UNIQUE (b))", pk: &[0], unique: &[1, 2], not_null: &[], check_b_nonneg: false, physical: &[0, 1, 2, 3] },
    Schema { name: "constraints", create: "CREATE TABLE t (id INTEGER PRIMARY KEY, a INTEGER UNIQUE, b INTEGER NOT NULL, c VARCHAR(10), CHECK (b >= 0))", pk: &[0], unique: &[1], not_null: &[2], check_b_nonneg: true, physical: &[0, 1, 2, 3] },
];

const ALL: &str = "SELECT id, a, b, c FROM t";

fn snapshot(s: &mut Session) -> Result<Vec<CRow>, String> {
    let rec = s.record;
    s.record = false;
    let r = s.query(ALL);
    s.record = rec;
    r
}

fn hist(s: &Session) -> serde_json::Value {
    json!(s.history.iter().map(|e| format!("{}  -- {}", e.sql, crate::core::util::trunc(&e.outcome, 60))).collect::<Vec<_>>())
}

struct Gen<'a> {
    rng: &'a mut Rng,
    next_id: i64,
    mode: Mode,
    sch: &'a Schema,
}

impl<'a> Gen<'a> {
    fn val_a(&mut self) -> String {
        if self.rng.chance(1, 6) { "NULL".into() } else { self.rng.range(0, 6).to_string() }
    }
    fn val_b(&mut self) -> String {
        if self.rng.chance(1, 8) { "NULL".into() } else { self.rng.range(0, 5).to_string() }
    }
    fn val_c(&mut self) -> String {
        if self.sch.name == "date-column" {
            // mostly valid dates, sometimes text that is not a date (refused when converted)
            return match self.rng.below(8) {
                0 => "NULL".into(),
                1 => format!("'{}'", self.rng.pick(&["zz", "2024-13-45", "", "24-1-1x"])),
                _ => format!("'{}'", self.rng.pick(&["2024-01-01", "1999-12-31", "2000-02-29"])),
            };
        }
        if self.rng.chance(1, 6) { "NULL".into() } else { format!("'{}'", self.rng.pick(&["x", "y", "zz", ""])) }
    }
    /// row literal in logical order (id, a, b, c) rendered in the table's physical order
    fn row(&mut self, id: String) -> String {
        let logical = [id, self.val_a(), self.val_b(), self.val_c()];
        self.sch.physical.iter().map(|i| logical[*i].clone()).collect::<Vec<_>>().join(", ")
    }
    fn fresh_id(&mut self) -> String {
        self.next_id += 1;
        self.next_id.to_string()
    }
    fn some_id(&mut self) -> i64 {
        self.rng.range(1, self.next_id.max(1))
    }
    fn pred(&mut self) -> (String, &'static str) {
        match self.rng.below(14) {
            12 | 13 => (format!("id = {} OR id = {}", self.some_id(), self.next_id), "pk-or-last"),
            0 | 1 => (format!("id = {}", self.some_id()), "pk-eq"),
            2 => (format!("id = {}.0", self.some_id()), "pk-eq-float-literal"),
            3 => (format!("id IN ({}, {})", self.some_id(), self.some_id()), "pk-in"),
            4 => (format!("a > {}", self.rng.range(0, 4)), "range"),
            5 => ("a IS NULL".into(), "is-null"),
            6 => (format!("b BETWEEN {} AND {}", self.rng.range(0, 2), self.rng.range(2, 5)), "between"),
            7 => ("a".into(), "integer-as-truth-value"),
            8 => ("id IN (SELECT id FROM src)".into(), "in-subquery"),
            9 => (format!("c = '{}'", self.rng.pick(&["x", "y", "zz"])), "text-eq"),
            10 => (format!("id = {} AND a = {}", self.some_id(), self.rng.range(0, 5)), "pk-and-other"),
            _ => (format!("id > {}", self.some_id()), "pk-range"),
        }
    }
    fn statement(&mut self) -> (String, String) {
        let m = self.mode;
        let r = self.rng.below(20);
        match r {
            0..=4 => {
                let id = if self.rng.chance(1, 6) && !self.sch.pk.is_empty() { self.some_id().to_string() } else { self.fresh_id() };
                (format!("INSERT INTO t VALUES ({})", self.row(id)), "insert-single".into())
            }
            5 | 6 => {
                let k = self.rng.range(2, 5);
                let dup_at = if self.rng.chance(1, 3) && !self.sch.pk.is_empty() { Some(self.rng.range(0, k - 1)) } else { None };
                let mut rows = Vec::new();
                let mut first_id = None;
                for i in 0..k {
                    let id = if Some(i) == dup_at && i > 0 { first_id.clone().unwrap() } else if Some(i) == dup_at { self.some_id().to_string() } else { self.fresh_id() };
                    if first_id.is_none() {
                        first_id = Some(id.clone());
                    }
                    rows.push(format!("({})", self.row(id)));
                }
                (format!("INSERT INTO t VALUES {}", rows.join(", ")), format!("insert-multi{}", if dup_at.is_some() { "-dup" } else { "" }))
            }
            7 => ("INSERT INTO t SELECT * FROM src".into(), "insert-select-star".into()),
            8 => {
                let cols = self.sch.physical.iter().map(|i| ["id + 100", "a", "b", "c"][*i]).collect::<Vec<_>>().join(", ");
                (format!("INSERT INTO t SELECT {} FROM src WHERE a > {}", cols, self.rng.range(0, 3)), "insert-select-expr".into())
            }
            9..=12 => {
                let (p, pk) = self.pred();
                if m != Mode::C09 && self.rng.chance(1, 8) {
                    // the full-row write-back an ORM produces: the key is assigned the value it
                    // already has while other (possibly UNIQUE) columns change
                    let k = self.some_id();
                    let a = self.val_a();
                    return (format!("UPDATE t SET id = {}, a = {}, b = {} WHERE id = {}", k, a, self.rng.range(0, 5), k), "update:key-to-same-value".into());
                }
                let set = match self.rng.below(if m == Mode::C09 { 5 } else { 10 }) {
                    9 => "a = NULL".to_string(),
                    0 => format!("a = {}", self.rng.range(0, 6)),
                    1 => "a = a + 1, b = a".to_string(),
                    2 => format!("c = '{}'", self.rng.pick(&["x", "q", ""])),
                    3 => format!("b = {}", self.rng.range(0, 5)),
                    4 => "b = b + a".to_string(),
                    5 => "b = NULL".to_string(),
                    6 => "b = 0 - 1".to_string(),
                    7 => "id = id + 1".to_string(),
                    _ => format!("id = {}", self.some_id()),
                };
                (format!("UPDATE t SET {} WHERE {}", set, p), format!("update:{}", pk))
            }
            13..=15 => {
                let (p, pk) = self.pred();
                (format!("DELETE FROM t WHERE {}", p), format!("delete:{}", pk))
            }
            16 => {
                if m == Mode::C10 || m == Mode::C15 {
                    let id = self.some_id().to_string();
                    if self.rng.chance(1, 2) {
                        (format!("REPLACE INTO t VALUES ({})", self.row(id)), "replace".into())
                    } else {
                        (format!("INSERT INTO t VALUES ({}) ON DUPLICATE KEY UPDATE a = {}", self.row(id), self.rng.range(0, 6)), "on-duplicate-key".into())
                    }
                } else {
                    ("DELETE FROM t".into(), "delete-all".into())
                }
            }
            17 => {
                if m == Mode::C15 || m == Mode::C10 {
                    ("TRUNCATE TABLE t".into(), "truncate".into())
                } else {
                    ("DELETE FROM t".into(), "delete-all".into())
                }
            }
            18 => {
                // ascending run (append-mode shortcut) followed by a repeat
                let id = self.fresh_id();
                (format!("INSERT INTO t VALUES ({})", self.row(id)), "insert-ascending".into())
            }
            _ => {
                let id = (self.next_id).to_string();
                (format!("INSERT INTO t VALUES ({})", self.row(id)), "insert-repeat-last-key".into())
            }
        }
    }
}

/// C10 invariants over the logical rows (id, a, b, c).
fn constraint_violation(sch: &Schema, rows: &[CRow]) -> Option<String> {
    if !sch.pk.is_empty() {
        for (i, r) in rows.iter().enumerate() {
            if sch.pk.iter().any(|k| r[*k].is_null()) {
                return Some("primary-key-null".into());
            }
            for q in &rows[..i] {
                if sch.pk.iter().all(|k| r[*k].approx_eq(&q[*k], 0.0)) {
                    return Some("primary-key-duplicate".into());
                }
            }
        }
    }
    for u in sch.unique {
        for (i, r) in rows.iter().enumerate() {
            if r[*u].is_null() {
                continue;
            }
            if rows[..i].iter().any(|q| q[*u].approx_eq(&r[*u], 0.0)) {
                return Some("unique-duplicate".into());
            }
        }
    }
    for n in sch.not_null {
        if rows.iter().any(|r| r[*n].is_null()) {
            return Some("not-null-violated".into());
        }
    }
    if sch.check_b_nonneg && rows.iter().any(|r| matches!(r[2], Canon::Int(b) if b < 0)) {
        return Some("check-false".into());
    }
    None
}

fn canon_key(vals: &[SqlValue]) -> String {
    vals.iter().map(|v| Canon::from_sql(v).show()).collect::<Vec<_>>().join("|")
}

/// C15: constraint hash indexes and user indexes equal what a rebuild from scratch produces,
/// and the primary-key map equals {key(row_i) -> i} computed from scan().
fn index_mismatch(s: &Session, sch: &Schema) -> Option<(String, serde_json::Value)> {
    let table = s.db.get_table("T")?;
    let rows = table.scan();
    // (1) definition for the PK hash index
    if let Some(pk) = table.primary_key_index() {
        let phys_of = |logical: usize| sch.physical.iter().position(|p| *p == logical).unwrap();
        let mut want: BTreeMap<String, usize> = BTreeMap::new();
        for (i, r) in rows.iter().enumerate() {
            let key: Vec<SqlValue> = sch.pk.iter().map(|k| r.values[phys_of(*k)].clone()).collect();
            want.insert(canon_key(&key), i);
        }
        let got: BTreeMap<String, usize> = pk.iter().map(|(k, v)| (canon_key(k), *v)).collect();
        if got != want {
            return Some(("primary-key-index-differs-from-rows".into(), json!({"index": format!("{:?}", got), "from_rows": format!("{:?}", want)})));
        }
    }
    // (2) everything equals a rebuild on a clone
    let mut clone = s.db.clone();
    if let Some(t) = clone.get_table_mut("T") {
        t.rebuild_indexes();
    }
    clone.rebuild_indexes("T");
    let ct = clone.get_table("T")?;
    let dump_hash = |m: &std::collections::HashMap<Vec<SqlValue>, usize>| -> BTreeMap<String, usize> { m.iter().map(|(k, v)| (canon_key(k), *v)).collect() };
    if table.primary_key_index().map(dump_hash) != ct.primary_key_index().map(dump_hash) {
        return Some(("primary-key-index-differs-from-rebuild".into(), json!({})));
    }
    let (u1, u2) = (table.unique_indexes(), ct.unique_indexes());
    if u1.len() != u2.len() || u1.iter().zip(u2.iter()).any(|(a, b)| dump_hash(a) != dump_hash(b)) {
        return Some(("unique-index-differs-from-rebuild".into(), json!({"live": u1.iter().map(|m| format!("{:?}", dump_hash(m))).collect::<Vec<_>>(), "rebuilt": u2.iter().map(|m| format!("{:?}", dump_hash(m))).collect::<Vec<_>>() })));
    }
    for name in s.db.list_indexes_for_table("T") {
        let dump = |db: &vibesql_storage::Database| -> Option<BTreeMap<String, Vec<usize>>> {
            db.get_index_data(&name).map(|d| {
                d.iter()
                    .map(|(k, mut v)| {
                        v.sort();
                        (canon_key(&k), v)
                    })
                    .collect()
            })
        };
        let (live, rebuilt) = (dump(&s.db), dump(&clone));
        if live != rebuilt {
            return Some((format!("user-index-differs-from-rebuild"), json!({"index": name, "live": format!("{:?}", live), "rebuilt": format!("{:?}", rebuilt)})));
        }
    }
    None
}

pub fn run_c09(ctx: &mut Ctx) {
    run(ctx, Mode::C09)
}
pub fn run_c10(ctx: &mut Ctx) {
    run(ctx, Mode::C10)
}
pub fn run_c11(ctx: &mut Ctx) {
    run(ctx, Mode::C11)
}
pub fn run_c15(ctx: &mut Ctx) {
    run(ctx, Mode::C15)
}

fn setup(rng: &mut Rng, mode: Mode) -> (Session, &'static Schema, Vec<String>) {
    let sch: &'static Schema = match mode {
        Mode::C10 => if rng.chance(1, 2) { &SCHEMAS[6] } else if rng.chance(1, 2) { &SCHEMAS[5] } else { &SCHEMAS[rng.usize(5)] },
        _ => &SCHEMAS[rng.usize(7)],
    };
    let mut s = Session::new();
    s.must(sch.create);
    s.must("CREATE TABLE src (id INTEGER, a INTEGER, b INTEGER, c VARCHAR(10))");
    // src is laid out like t physically so that INSERT INTO t SELECT * FROM src is type-compatible
    for i in 0..rng.range(0, 4) {
        let logical = [(200 + i).to_string(), rng.range(0, 6).to_string(), rng.range(0, 5).to_string(), "'s'".to_string()];
        let phys: Vec<String> = sch.physical.iter().map(|p| logical[*p].clone()).collect();
        let _ = s.exec(&format!("INSERT INTO src VALUES ({})", phys.join(", ")));
    }
    if sch.physical != [0, 1, 2, 3] {
        // keep src's column *names* aligned with t's physical order for SELECT *
        s = Session::new();
        s.must(sch.create);
        s.must("CREATE TABLE src (a INTEGER, id INTEGER, b INTEGER, c VARCHAR(10))");
        for i in 0..rng.range(0, 4) {
            let _ = s.exec(&format!("INSERT INTO src VALUES ({}, {}, {}, 's')", rng.range(0, 6), 200 + i, rng.range(0, 5)));
        }
    }
    let mut extra = Vec::new();
    let ix = match rng.below(6) {
        0 => Some("CREATE INDEX ix_a ON t (a)"),
        1 => Some("CREATE UNIQUE INDEX ux_b ON t (b)"),
        2 => Some("CREATE INDEX ix_ab ON t (a, b)"),
        3 => Some("CREATE INDEX ix_c ON t (c)"),
        _ => None,
    };
    if let Some(ix) = ix {
        if s.exec(ix).is_err() {
            // rejected index definitions are simply absent
        } else {
            extra.push(ix.to_string());
        }
    }
    (s, sch, extra)
}

fn run(ctx: &mut Ctx, mode: Mode) {
    let enumerated: u64 = if mode == Mode::C11 { c11_enumeration_len() } else { 0 };
    let total = enumerated + ctx.n(5000, 200_000);
    for case in ctx.my_cases(total) {
        ctx.begin_case(case);
        if case < enumerated {
            c11_enumerated_case(ctx, case);
            continue;
        }
        let mut rng = ctx.rng(case);
        let (mut s, sch, indexes) = setup(&mut rng, mode);
        let has_unique_index = indexes.iter().any(|i| i.contains("UNIQUE"));
        let mut g = Gen { rng: &mut rng, next_id: 0, mode, sch };
        let steps = g.rng.range(4, 18);
        for _step in 0..steps {
            let (sql, kind) = g.statement();
            let pre = s.db.clone();
            let before = match snapshot(&mut s) {
                Ok(r) => r,
                Err(_) => break,
            };
            ctx.eval();
            let out = s.exec(&sql);
            if let Outcome::Panic(p) = &out {
                ctx.violation(case, format!("panic:{}:{}", kind.split(':').next().unwrap_or(""), panic_class(p)), json!({"sql": sql, "history": hist(&s), "schema": sch.name, "indexes": indexes}));
                break;
            }
            let after = match snapshot(&mut s) {
                Ok(r) => r,
                Err(e) => {
                    ctx.violation(case, "table-unreadable-after-statement", json!({"sql": sql, "error": e, "history": hist(&s)}));
                    break;
                }
            };
            let shape = format!("{}|{}|{}|{}", sch.name, kind, if out.is_err() { "rejected" } else { "applied" }, indexes.first().map(|i| i.split(" ON ").next().unwrap_or("")).unwrap_or("noindex"));
            match mode {
                Mode::C10 => {
                    let mut sch_eff = sch.clone();
                    let uniq_b: &'static [usize] = &[1, 2];
                    if has_unique_index && sch_eff.unique == [1] {
                        sch_eff.unique = uniq_b;
                    }
                    let only_b: &'static [usize] = &[2];
                    if has_unique_index && sch_eff.unique.is_empty() {
                        sch_eff.unique = only_b;
                    }
                    if let Some(v) = constraint_violation(&sch_eff, &after) {
                        let via_index = has_unique_index && constraint_violation(sch, &after).is_none();
                        ctx.violation(case, format!("{}{}|{}", v, if via_index { ":unique-index" } else { "" }, kind.split(':').next().unwrap_or("")), json!({"sql": sql, "outcome": out.brief(), "rows_after": show_rows(&after, 20), "history": hist(&s), "indexes": indexes, "schema": sch.name}));
                        break;
                    }
                    ctx.nontrivial(shape);
                }
                Mode::C11 => {
                    if out.is_err() {
                        if let Some((what, detail)) = state_changed(&mut s, &pre, &before, &after) {
                            ctx.violation(case, format!("state-changed-after-error:{}|{}", what, kind.split(':').next().unwrap_or("")), json!({"sql": sql, "error": out.brief(), "detail": detail, "history": hist(&s), "indexes": indexes, "schema": sch.name}));
                            break;
                        }
                        ctx.nontrivial(shape);
                    }
                }
                Mode::C15 => {
                    // once the rows themselves violate a declared key (C10's subject) "the index a
                    // rebuild would produce" is no longer well defined: the case ends there
                    if constraint_violation(sch, &after).is_some() {
                        ctx.count("case-ended:rows-violate-a-declared-key", 1);
                        break;
                    }
                    if let Some((what, detail)) = index_mismatch(&s, sch) {
                        // UPDATE statements are split by how many rows they touched: the open
                        // findings concern multi-row updates, a single-row update is another matter
                        let stmt = kind.split(':').next().unwrap_or("");
                        let rows_class = match (&out, stmt) {
                            (Outcome::Count(n), "update") if *n <= 1 => "-single-row",
                            _ => "",
                        };
                        ctx.violation(case, format!("{}|{}{}", what, stmt, rows_class), json!({"sql": sql, "outcome": out.brief(), "detail": detail, "history": hist(&s), "indexes": indexes, "schema": sch.name}));
                        break;
                    }
                    ctx.nontrivial(shape);
                }
                Mode::C09 => {
                    if let Some((what, detail)) = effect_mismatch(&sql, &kind, &out, &pre, &before, &after, &s) {
                        let predkind = kind.split(':').nth(1).unwrap_or("");
                        let sig = if ["in-subquery", "integer-as-truth-value", "pk-eq-float-literal"].contains(&predkind) { format!("dml-disagrees-with-select:{}", predkind) } else { format!("{}|{}", what, kind) };
                        ctx.violation(case, sig, json!({"sql": sql, "outcome": out.brief(), "detail": detail, "rows_before": show_rows(&before, 20), "rows_after": show_rows(&after, 20), "history": hist(&s), "indexes": indexes, "schema": sch.name}));
                        break;
                    }
                    if !out.is_err() {
                        let fast = if s.hit("delete_pk_fast") || s.hit("update_pk_fast") { "pk-fast-path" } else if s.hit("bulk_transfer") { "bulk-transfer" } else if s.hit("delete_truncate") { "truncate-path" } else { "scan" };
                        ctx.nontrivial(format!("{}|{}", shape, fast));
                        ctx.count_probes(&s.last_probes);
                    }
                }
            }
        }
        let n = s.history.len();
        let sname = sch.name;
        ctx.sample(|| json!({"schema": sname, "statements": n, "last": s.history.last().map(|e| e.sql.clone())}));
    }
}

/// C11 oracle: rows (multiset), index-driven probe queries and index structures unchanged.
fn state_changed(s: &mut Session, pre: &vibesql_storage::Database, before: &[CRow], after: &[CRow]) -> Option<(String, serde_json::Value)> {
    if !multiset_eq(before, after, 0.0) {
        return Some(("rows".into(), json!({"before": show_rows(before, 20), "after": show_rows(after, 20)})));
    }
    let mut p = Session::with_db(pre.clone());
    p.record = false;
    let rec = s.record;
    s.record = false;
    let probes = ["SELECT id FROM t WHERE a = 1", "SELECT id FROM t WHERE a >= 0 ORDER BY a, id", "SELECT id FROM t WHERE b = 2", "SELECT id FROM t WHERE c = 'x'", "SELECT id FROM t WHERE id = 1", "SELECT COUNT(*) FROM t", "SELECT id, a, b, c FROM src"];
    for q in probes {
        let (x, y) = (p.query(q), s.query(q));
        if let (Ok(x), Ok(y)) = (&x, &y) {
            if !multiset_eq(x, y, 0.0) {
                s.record = rec;
                return Some(("probe-query".into(), json!({"query": q, "before": show_rows(x, 12), "after": show_rows(y, 12)})));
            }
        }
    }
    s.record = rec;
    None
}

/// C09 oracle: the engine's own SELECT on the pre-state clone says which rows and which new values.
fn effect_mismatch(sql: &str, kind: &str, out: &Outcome, pre: &vibesql_storage::Database, before: &[CRow], after: &[CRow], _s: &Session) -> Option<(String, serde_json::Value)> {
    if out.is_err() {
        return None; // rejected statements are C11's business
    }
    let mut p = Session::with_db(pre.clone());
    p.record = false;
    let count = if let Outcome::Count(n) = out { Some(*n) } else { None };
    let find = |rows: &[CRow], id: &Canon| rows.iter().filter(|r| r[0].approx_eq(id, 0.0)).cloned().collect::<Vec<CRow>>();
    if kind.starts_with("delete") {
        let where_ = sql.split(" WHERE ").nth(1).map(|w| format!(" WHERE {}", w)).unwrap_or_default();
        let sel = p.query(&format!("SELECT id, a, b, c FROM t{}", where_)).ok()?;
        // expected = before minus selected (as multisets)
        let mut expected: Vec<CRow> = before.to_vec();
        for r in &sel {
            if let Some(i) = expected.iter().position(|q| rows_eq(q, r, 0.0)) {
                expected.remove(i);
            }
        }
        if !multiset_eq(&expected, after, 0.0) {
            return Some(("delete-removed-wrong-rows".into(), json!({"selected_by_where_on_prestate": show_rows(&sel, 20), "expected_after": show_rows(&expected, 20)})));
        }
        if count != Some(sel.len()) {
            return Some(("delete-count-wrong".into(), json!({"reported": count, "selected": sel.len()})));
        }
    } else if kind.starts_with("update") {
        // UPDATE t SET <assignments> WHERE <p>
        let rest = sql.strip_prefix("UPDATE t SET ")?;
        let (set, where_) = rest.split_once(" WHERE ")?;
        let mut exprs: [String; 4] = ["id".into(), "a".into(), "b".into(), "c".into()];
        for asg in set.split(", ") {
            let (col, e) = asg.split_once(" = ")?;
            let idx = ["id", "a", "b", "c"].iter().position(|c| *c == col)?;
            exprs[idx] = e.to_string();
        }
        let sel = p.query(&format!("SELECT id, {}, {}, {}, {} FROM t WHERE {}", exprs[0], exprs[1], exprs[2], exprs[3], where_)).ok()?;
        let mut expected: Vec<CRow> = Vec::new();
        for r in before {
            let hits: Vec<&CRow> = sel.iter().filter(|q| q[0].approx_eq(&r[0], 0.0)).collect();
            if hits.is_empty() || find(before, &r[0]).len() > 1 {
                expected.push(r.clone()); // unselected (or ambiguous identity): must be unchanged
            } else {
                expected.push(hits[0][1..].to_vec());
            }
        }
        let ambiguous = before.iter().any(|r| find(before, &r[0]).len() > 1 && sel.iter().any(|q| q[0].approx_eq(&r[0], 0.0)));
        if !ambiguous && !multiset_eq(&expected, after, 0.0) {
            return Some(("update-result-differs".into(), json!({"selected_with_new_values_on_prestate": show_rows(&sel, 20), "expected_after": show_rows(&expected, 20)})));
        }
        if count != Some(sel.len()) {
            return Some(("update-count-wrong".into(), json!({"reported": count, "selected": sel.len()})));
        }
    } else if kind.starts_with("insert") {
        let added: Vec<CRow> = {
            let mut rest = after.to_vec();
            for r in before {
                if let Some(i) = rest.iter().position(|q| rows_eq(q, r, 0.0)) {
                    rest.remove(i);
                } else {
                    return Some(("insert-changed-existing-rows".into(), json!({"missing_after": crate::core::canon::show_row(r)})));
                }
            }
            rest
        };
        if count != Some(added.len()) {
            return Some(("insert-count-wrong".into(), json!({"reported": count, "added": show_rows(&added, 20)})));
        }
        // expected added rows
        let expected: Option<Vec<CRow>> = if sql.contains(" SELECT ") {
            let q = sql.split_once(" SELECT ").map(|x| format!("SELECT {}", x.1))?;
            p.query(&q).ok().map(|rows| {
                // physical -> logical
                let phys = if sql.contains("SELECT *") || sql.contains("id + 100") { Some(()) } else { None };
                let _ = phys;
                rows
            })
        } else {
            None
        };
        if let Some(mut exp) = expected {
            // map physical order to logical (id, a, b, c) if the table stores a first
            let second = _s.db.get_table("T").map(|t| t.schema.columns[0].name.eq_ignore_ascii_case("a")).unwrap_or(false);
            if second {
                exp = exp.into_iter().map(|r| vec![r[1].clone(), r[0].clone(), r[2].clone(), r[3].clone()]).collect();
            }
            if !multiset_eq(&exp, &added, 0.0) {
                return Some(("insert-select-added-wrong-rows".into(), json!({"expected_added": show_rows(&exp, 20), "added": show_rows(&added, 20)})));
            }
        }
    }
    None
}

// ---------------------------------------------------------------------------------------------
// C11 fault enumeration: a k-row statement with the failing row at every position.

const FAULTS: [&str; 4] = ["duplicate-pk", "null-in-not-null", "check-false", "duplicate-unique"];
const FORMS: [&str; 3] = ["values", "select-union", "update"];

fn c11_enumeration_len() -> u64 {
    // k in 2..=5, position 1..=k  => 14 (k, pos) pairs
    (14 * FAULTS.len() * FORMS.len()) as u64
}

fn c11_enumerated_case(ctx: &mut Ctx, case: u64) {
    let pairs: Vec<(usize, usize)> = (2..=5usize).flat_map(|k| (1..=k).map(move |p| (k, p))).collect();
    let idx = case as usize;
    let (k, pos) = pairs[idx % pairs.len()];
    let fault = FAULTS[(idx / pairs.len()) % FAULTS.len()];
    let form = FORMS[idx / (pairs.len() * FAULTS.len())];
    let mut s = Session::new();
    s.must("CREATE TABLE t (id INTEGER PRIMARY KEY, a INTEGER UNIQUE, b INTEGER NOT NULL, c VARCHAR(10), CHECK (b >= 0))");
    s.must("CREATE TABLE src (id INTEGER, a INTEGER, b INTEGER, c VARCHAR(10))");
    s.must("CREATE INDEX ix_c ON t (c)");
    s.must("INSERT INTO t VALUES (1, 10, 1, 'x'), (2, 20, 2, 'y'), (3, 30, 3, 'x')");
    let good = |i: usize| (100 + i, 100 + i, 1, "'n'");
    let bad = |i: usize| -> (String, String, String, String) {
        let (id, a, b, c) = good(i);
        match fault {
            "duplicate-pk" => ("2".into(), a.to_string(), b.to_string(), c.into()),
            "null-in-not-null" => (id.to_string(), a.to_string(), "NULL".into(), c.into()),
            "check-false" => (id.to_string(), a.to_string(), "0 - 5".into(), c.into()),
            _ => (id.to_string(), "20".into(), b.to_string(), c.into()),
        }
    };
    let sql = match form {
        "values" | "select-union" => {
            let rows: Vec<(String, String, String, String)> = (1..=k).map(|i| if i == pos { bad(i) } else { let g = good(i); (g.0.to_string(), g.1.to_string(), g.2.to_string(), g.3.to_string()) }).collect();
            if form == "values" && fault != "check-false" {
                format!("INSERT INTO t VALUES {}", rows.iter().map(|r| format!("({}, {}, {}, {})", r.0, r.1, r.2, r.3)).collect::<Vec<_>>().join(", "))
            } else {
                format!("INSERT INTO t {}", rows.iter().map(|r| format!("SELECT {}, {}, {}, {}", r.0, r.1, r.2, r.3)).collect::<Vec<_>>().join(" UNION ALL "))
            }
        }
        _ => {
            // k rows exist with ids 101..; the UPDATE touches all of them and fails on the pos-th
            for i in 1..=k {
                let g = good(i);
                s.must(&format!("INSERT INTO t VALUES ({}, {}, {}, {})", g.0, g.1, g.2, g.3));
            }
            let target = 100 + pos;
            match fault {
                "duplicate-pk" => format!("UPDATE t SET id = CASE WHEN id = {} THEN 2 ELSE id + 1000 END WHERE id > 100", target),
                "null-in-not-null" => format!("UPDATE t SET b = CASE WHEN id = {} THEN NULL ELSE 7 END WHERE id > 100", target),
                "check-false" => format!("UPDATE t SET b = CASE WHEN id = {} THEN 0 - 5 ELSE 7 END WHERE id > 100", target),
                _ => format!("UPDATE t SET a = CASE WHEN id = {} THEN 20 ELSE a + 1000 END WHERE id > 100", target),
            }
        }
    };
    let pre = s.db.clone();
    let before = snapshot(&mut s).unwrap_or_default();
    ctx.eval();
    let out = s.exec(&sql);
    let after = snapshot(&mut s).unwrap_or_default();
    let shape = format!("enumerated|{}|{}|k={}|pos={}", form, fault, k, pos);
    match &out {
        Outcome::Panic(p) => ctx.violation(case, format!("panic:{}", panic_class(p)), json!({"sql": sql})),
        o if o.is_err() => {
            if let Some((what, detail)) = state_changed(&mut s, &pre, &before, &after) {
                ctx.violation(case, format!("state-changed-after-error:{}|{}|{}|{}", what, form, fault, if pos == 1 { "first-row" } else { "later-row" }), json!({"sql": sql, "error": out.brief(), "detail": detail, "k": k, "failing_position": pos}));
            } else {
                ctx.nontrivial(shape);
            }
        }
        _ => {
            // accepting a violating statement is C10's business; here only note it
            ctx.count(&format!("violating_statement_accepted:{}:{}", form, fault), 1);
        }
    }
    ctx.exhaustive = true;
    if pos == 1 && k == 2 {
        ctx.sample(|| json!({"form": form, "fault": fault, "k": k, "position": pos, "sql": sql}));
    }
}
