//! C22 — temporal values round-trip through text; parsing is total (never panics).

use std::str::FromStr;

use serde_json::json;
use vibesql_types::{Date, Interval, Time, Timestamp};

use crate::core::ctx::Ctx;
use crate::core::rng::Rng;
use crate::core::session::{guard, Outcome, Session};
use crate::core::util::{panic_class, sql_quote, trunc};

fn days_in(y: i32, m: u8) -> u8 {
    match m {
        1 | 3 | 5 | 7 | 8 | 10 | 12 => 31,
        4 | 6 | 9 | 11 => 30,
        _ => {
            if (y % 4 == 0 && y % 100 != 0) || y % 400 == 0 {
                29
            } else {
                28
            }
        }
    }
}

const YEARS: [i32; 12] = [1, 2, 9, 10, 99, 100, 999, 1000, 1999, 2000, 2024, 9999];
const NANOS: [u32; 14] = [0, 1, 9, 10, 100, 999, 1000, 999_999, 1_000_000, 100_000_000, 123_456_789, 500_000_000, 999_999_990, 999_999_999];

pub fn run(ctx: &mut Ctx) {
    // case 0: component grid (exhaustive over the grid); case 1: interval grid;
    // cases >= 2: random valid values + hostile strings.
    let total = ctx.n(40, 12000);
    for case in ctx.my_cases(total) {
        ctx.begin_case(case);
        let mut rng = ctx.rng(case);
        match case {
            0 => grid(ctx, case),
            1 => intervals(ctx, case),
            _ => {
                random_roundtrips(ctx, case, &mut rng);
                hostile(ctx, case, &mut rng);
            }
        }
    }
}

fn rt_date(ctx: &mut Ctx, case: u64, d: Date) {
    ctx.eval();
    let text = d.to_string();
    match guard(|| Date::from_str(&text)) {
        Ok(Ok(p)) if p == d => {}
        Ok(r) => ctx.violation(case, "roundtrip:Date", json!({"value": format!("{:?}", d), "text": text, "parsed": format!("{:?}", r)})),
        Err(p) => ctx.violation(case, format!("panic:Date::from_str:{}", panic_class(&p)), json!({"input": text, "panic": p})),
    }
}

fn rt_time(ctx: &mut Ctx, case: u64, t: Time) {
    ctx.eval();
    let text = t.to_string();
    match guard(|| Time::from_str(&text)) {
        Ok(Ok(p)) if p == t => {}
        Ok(r) => ctx.violation(case, "roundtrip:Time", json!({"value": format!("{:?}", t), "text": text, "parsed": format!("{:?}", r)})),
        Err(p) => ctx.violation(case, format!("panic:Time::from_str:{}", panic_class(&p)), json!({"input": text, "panic": p})),
    }
}

fn rt_ts(ctx: &mut Ctx, case: u64, ts: Timestamp) {
    ctx.eval();
    let text = ts.to_string();
    match guard(|| Timestamp::from_str(&text)) {
        Ok(Ok(p)) if p == ts => {}
        Ok(r) => ctx.violation(case, "roundtrip:Timestamp", json!({"value": format!("{:?}", ts), "text": text, "parsed": format!("{:?}", r)})),
        Err(p) => ctx.violation(case, format!("panic:Timestamp::from_str:{}", panic_class(&p)), json!({"input": text, "panic": p})),
    }
}

fn grid(ctx: &mut Ctx, case: u64) {
    let mut dates = Vec::new();
    for y in YEARS {
        for m in 1..=12u8 {
            for d in [1u8, 9, 10, 28, 29, 30, 31] {
                if d <= days_in(y, m) {
                    if let Ok(dt) = Date::new(y, m, d) {
                        dates.push(dt);
                        rt_date(ctx, case, dt);
                        ctx.nontrivial(format!("date:ylen{}:m{}:d{}", y.to_string().len(), m, d));
                    }
                }
            }
        }
    }
    let mut times = Vec::new();
    for h in [0u8, 1, 9, 10, 12, 23] {
        for mi in [0u8, 1, 30, 59] {
            for s in [0u8, 1, 59] {
                for ns in NANOS {
                    if let Ok(t) = Time::new(h, mi, s, ns) {
                        times.push(t);
                        rt_time(ctx, case, t);
                        ctx.nontrivial(format!("time:h{}:ns{}", h, ns));
                    }
                }
            }
        }
    }
    for (i, d) in dates.iter().enumerate() {
        // pair every date with a rotating slice of times
        for k in 0..4 {
            let t = times[(i * 7 + k * 131) % times.len()];
            rt_ts(ctx, case, Timestamp::new(*d, t));
        }
        ctx.nontrivial(format!("ts:ylen{}:m{}", d.year.to_string().len(), d.month));
    }
    ctx.sample(|| json!({"kind": "grid", "dates": dates.len(), "times": times.len(), "example": [dates[17].to_string(), times[33].to_string()]}));
    ctx.exhaustive = true;
}

fn interval_texts() -> Vec<String> {
    let mut v = Vec::new();
    for n in ["0", "1", "5", "12", "30", "360", "9999", "-1", "-30", "+7"] {
        for u in ["YEAR", "MONTH", "DAY", "HOUR", "MINUTE", "SECOND", "YEARS", "days", "Hour"] {
            v.push(format!("{} {}", n, u));
        }
    }
    for s in [
        "1-6 YEAR TO MONTH", "0-11 YEAR TO MONTH", "-1-6 YEAR TO MONTH", "5 12:30:45 DAY TO SECOND", "5 12 DAY TO HOUR", "12:30 HOUR TO MINUTE",
        "12:30:45.123456 HOUR TO SECOND", "30:45 MINUTE TO SECOND", "1.5 SECOND", "0.000001 SECOND", "59.999999 SECOND",
    ] {
        v.push(s.to_string());
    }
    v
}

fn intervals(ctx: &mut Ctx, case: u64) {
    for text in interval_texts() {
        ctx.eval();
        let t2 = text.clone();
        match guard(move || {
            let v = Interval::new(t2);
            let back = Interval::from_str(&v.to_string());
            (v, back)
        }) {
            Ok((v, Ok(b))) => {
                if v != b || v.cmp(&b) != std::cmp::Ordering::Equal {
                    ctx.violation(case, "roundtrip:Interval", json!({"text": text, "value": format!("{:?}", v), "parsed": format!("{:?}", b)}));
                }
                ctx.nontrivial(format!("interval:{}", text.split_whitespace().skip(1).collect::<Vec<_>>().join("_").to_uppercase()));
            }
            Ok((_, Err(e))) => ctx.violation(case, "roundtrip:Interval:reparse-error", json!({"text": text, "err": e})),
            Err(p) => ctx.violation(case, format!("panic:Interval::new:{}", panic_class(&p)), json!({"input": text, "panic": p})),
        }
    }
    ctx.sample(|| json!({"kind": "interval-grid", "texts": interval_texts().len()}));
}

fn random_roundtrips(ctx: &mut Ctx, case: u64, rng: &mut Rng) {
    let mut s = Session::new();
    s.record = false;
    for _ in 0..60 {
        let y = if rng.chance(1, 3) { *rng.pick(&YEARS) } else { rng.range(1, 9999) as i32 };
        let m = rng.range(1, 12) as u8;
        let d = rng.range(1, days_in(y, m) as i64) as u8;
        let ns = if rng.chance(1, 2) { *rng.pick(&NANOS) } else { rng.below(1_000_000_000) as u32 };
        let (Ok(dt), Ok(t)) = (Date::new(y, m, d), Time::new(rng.below(24) as u8, rng.below(60) as u8, rng.below(60) as u8, ns)) else { continue };
        rt_date(ctx, case, dt);
        rt_time(ctx, case, t);
        let ts = Timestamp::new(dt, t);
        rt_ts(ctx, case, ts);
        ctx.nontrivial(format!("rand:nsdigits{}:ylen{}", ns.to_string().trim_end_matches('0').len(), y.to_string().len()));
        // through SQL: CAST of the formatted text must give back the same value
        if rng.chance(1, 6) {
            for (ty, text, want) in [
                ("DATE", dt.to_string(), format!("D{}", dt)),
                ("TIME", t.to_string(), format!("T{}", t)),
                ("TIMESTAMP", ts.to_string(), format!("S{}", ts)),
            ] {
                ctx.eval();
                let sql = format!("SELECT CAST({} AS {})", sql_quote(&text), ty);
                match s.exec(&sql) {
                    Outcome::Rows(r) => {
                        let got = r.first().and_then(|row| row.first()).map(|c| c.show()).unwrap_or_default();
                        if got != want {
                            ctx.violation(case, format!("roundtrip:sql-cast:{}", ty), json!({"sql": sql, "want": want, "got": got}));
                        }
                        ctx.nontrivial(format!("sqlcast:{}", ty));
                    }
                    Outcome::Panic(p) => ctx.violation(case, format!("panic:sql-cast:{}:{}", ty, panic_class(&p)), json!({"sql": sql, "panic": p})),
                    Outcome::Err(e) => ctx.violation(case, format!("roundtrip:sql-cast-error:{}", ty), json!({"sql": sql, "err": e})),
                    _ => {}
                }
            }
        }
    }
    ctx.sample(|| json!({"kind": "random-roundtrip", "case": case}));
}

const NASTY: [&str; 22] = [
    "é", "١", "٣", "１", "日", "\u{0}", "\u{301}", "😀", "-", "+", ":", ".", " ", "T", "Z", "99999999999999999999", "-0", "18446744073709551616", "2147483648", "e9", "\t", "'",
];

fn mutate(rng: &mut Rng, base: &str) -> String {
    let chars: Vec<char> = base.chars().collect();
    let mut out: Vec<String> = chars.iter().map(|c| c.to_string()).collect();
    for _ in 0..rng.range(1, 3) {
        let pos = rng.usize(out.len() + 1);
        match rng.below(5) {
            0 => out.insert(pos.min(out.len()), rng.pick(&NASTY).to_string()),
            1 => {
                if !out.is_empty() {
                    let p = pos.min(out.len() - 1);
                    out[p] = rng.pick(&NASTY).to_string();
                }
            }
            2 => {
                if !out.is_empty() {
                    out.remove(pos.min(out.len() - 1));
                }
            }
            3 => out.truncate(pos),
            _ => {
                let p = pos.min(out.len());
                out.insert(p, "9".repeat(rng.range(1, 40) as usize));
            }
        }
    }
    out.concat()
}

fn hostile(ctx: &mut Ctx, case: u64, rng: &mut Rng) {
    let bases = [
        "2024-02-29", "0001-01-01", "12:34:56", "12:34:56.123456789", "23:59:59.5", "2024-02-29 12:34:56.789", "2024-02-29T12:34:56Z",
        "2024-02-29 12:34:56+05:30", "2024-02-29 12:34:56-0800", "5 YEAR", "1-6 YEAR TO MONTH", "5 12:30:45.5 DAY TO SECOND", "12:30:45.123456 HOUR TO SECOND",
        "1.5 SECOND", "30 DAY", "24 HOUR", "", " ",
    ];
    let mut s = Session::new();
    s.record = false;
    let mut shown = Vec::new();
    for _ in 0..150 {
        let base = *rng.pick(&bases);
        let input = mutate(rng, base);
        if shown.len() < 4 {
            shown.push(trunc(&input, 60));
        }
        let parsers: [(&str, Box<dyn Fn(&str) -> bool>); 4] = [
            ("Date::from_str", Box::new(|t: &str| Date::from_str(t).is_ok())),
            ("Time::from_str", Box::new(|t: &str| Time::from_str(t).is_ok())),
            ("Timestamp::from_str", Box::new(|t: &str| Timestamp::from_str(t).is_ok())),
            ("Interval::new", Box::new(|t: &str| {
                let v = Interval::new(t.to_string());
                let _ = v.cmp(&v);
                let _ = v == v;
                true
            })),
        ];
        for (name, f) in parsers.iter() {
            ctx.eval();
            match guard(|| f(&input)) {
                Ok(accepted) => ctx.nontrivial(format!("hostile:{}:{}:{}", name, base.len(), if accepted { "accepted" } else { "rejected" })),
                Err(p) => ctx.violation(case, format!("panic:{}:{}", name, panic_class(&p)), json!({"input": input, "base": base, "panic": p})),
            }
        }
        if rng.chance(1, 5) && !input.contains('\u{0}') {
            for ty in ["DATE", "TIME", "TIMESTAMP"] {
                ctx.eval();
                let sql = format!("SELECT CAST({} AS {})", sql_quote(&input), ty);
                if let Outcome::Panic(p) = s.exec(&sql) {
                    ctx.violation(case, format!("panic:sql-cast:{}:{}", ty, panic_class(&p)), json!({"sql": sql, "panic": p}));
                }
                let sql2 = format!("SELECT {} {}", ty, sql_quote(&input));
                if let Outcome::Panic(p) = s.exec(&sql2) {
                    ctx.violation(case, format!("panic:sql-literal:{}:{}", ty, panic_class(&p)), json!({"sql": sql2, "panic": p}));
                }
            }
            ctx.eval();
            let unit = ["YEAR", "DAY", "SECOND", "HOUR TO SECOND", "YEAR TO MONTH", "DAY TO SECOND"][rng.usize(6)];
            let sql3 = format!("SELECT INTERVAL {} {}", sql_quote(&input), unit);
            if let Outcome::Panic(p) = s.exec(&sql3) {
                ctx.violation(case, format!("panic:sql-literal:INTERVAL:{}", panic_class(&p)), json!({"sql": sql3, "panic": p}));
            }
        }
    }
    ctx.sample(|| json!({"kind": "hostile-strings", "case": case, "inputs": shown}));
}
