use crate::CheckDef;

pub mod c01;
pub mod c02;
pub mod c03;
pub mod c05;
pub mod c06;
pub mod c08;
pub mod c17;
pub mod c20;
pub mod c21;
pub mod c22;
pub mod c23;
pub mod c27;
pub mod c28;
pub mod c29;
pub mod c32;

pub fn registry() -> &'static [CheckDef] {
    &[
        CheckDef {
            id: "C01",
            level: "exploration",
            rule: "One case = 1-3 generated tables (id, a, b INTEGER, c VARCHAR; 0..7 rows; NULL density 0/15/40/100 %, duplicates, empty tables) loaded identically into vibesql and an in-memory SQLite, then 10 generated queries: plain selects (3VL predicates, + - *, CASE, COALESCE, IN lists with NULL, BETWEEN, scalar/IN/EXISTS subqueries correlated or not, INNER/LEFT/CROSS/comma joins, derived tables, DISTINCT), aggregate selects (COUNT/SUM/AVG/MIN/MAX [DISTINCT], GROUP BY, HAVING) and UNION/INTERSECT/EXCEPT [ALL]; ORDER BY over all output columns makes the sequence (and LIMIT/OFFSET) comparable, otherwise multisets are compared by value (1e-9 relative tolerance for non-integral numbers). INTERSECT ALL / EXCEPT ALL are judged against multiset algebra over the reference's operand results. A failing case is shrunk greedily (AST simplifications, then rows) and its signature is discrepancy kind + feature tags of the shrunken query. distinct = (shape, feature-tag set) of queries on which both engines answered and agreed.",
            floor: 200,
            shards: 16,
            cpu_budget_ms: 60_000,
            run: c01::run,
            assumptions: &["bundled SQLite 3.46 is the reference; NULLS LAST is requested from it because vibesql documents NULLs-last ordering", "no division, modulo, LIKE, string-number comparison or values near the i64 limits (dialects differ there)"],
        },
        CheckDef {
            id: "C02",
            level: "exploration",
            rule: "Twin databases with the same table t(id [PK], a, b, c VARCHAR, u): twin A gets 1-3 user indexes (single, text, multi-column, prefix c(2), DESC, DESC+multi, UNIQUE) created before or after the data; a random history of INSERT/UPDATE/DELETE (3-14 statements, NULL density 0/15/40 %) is applied to both (a statement A rejects is not applied to B); table contents must stay equal; then 12 queries with index-friendly predicates (= < <= > >= <>, BETWEEN, IN, IS NULL, AND/OR; literals NULL, min-1/min/max/max+1, 1.5, 2.0, +-i64 extremes, text around the prefix length) and optional ORDER BY a/c [DESC][, id] [LIMIT] are compared (multiset; sequence when ORDER BY ends in id) and A's output is checked against the requested order (NULLs last). distinct = (predicate shape, order shape, index kinds, empty/non-empty result) of queries for which the index_scan probe fired on A.",
            floor: 60,
            shards: 16,
            cpu_budget_ms: 60_000,
            run: c02::run,
            assumptions: &["twin B has no user indexes (primary-key hash index only)"],
        },
        CheckDef {
            id: "C03",
            level: "exploration",
            rule: "Table t(id, i, j INTEGER, d DOUBLE, s VARCHAR) with 0..1030 rows (sizes around SIMD lane/batch boundaries: 0,1,..,9,15,16,17,63,64,65,...), NULL density 0/10/30/100 % per column, +-0.0 and large magnitudes; 8 single-table aggregate statements per table (COUNT(*)/COUNT(c)/SUM/AVG/MIN/MAX over int, double, text columns and a*b / a+k, simple WHERE with = <> < <= > >= BETWEEN and NULL literals, HAVING, ORDER BY, LIMIT/OFFSET; every 4th may have GROUP BY/DISTINCT). Each statement runs twice on the same build: columnar gate open, and with the no_columnar switch of the verif hook; results must agree (1e-9 relative tolerance), and on the columnar path COUNT is never NULL and exactly one row comes back without HAVING/LIMIT. distinct = (aggregate shapes, predicate shapes, clauses, table size class, nulls) for statements on which the columnar probe fired.",
            floor: 40,
            shards: 16,
            cpu_budget_ms: 60_000,
            run: c03::run_c03,
            assumptions: &["the row path of the same build is the oracle (C07's model cross-checks a bug common to both)"],
        },
        CheckDef {
            id: "C05",
            level: "exploration",
            rule: "Three generated tables (NULL join keys, duplicates, empty sides), random indexes on a / b / id. Four rewrite families over a random pair of tables and key columns, optionally with an extra local predicate and with either side wrapped as a derived table: inner equi-join (comma join both orders, INNER JOIN both orders, CROSS JOIN + WHERE), semi join (IN, EXISTS, = ANY, DISTINCT over a join), NULL-aware anti join (NOT IN, NOT EXISTS with the NULL-correct condition, NOT (.. IN ..)), plain anti join (NOT EXISTS, LEFT JOIN .. IS NULL, correlated COUNT(*) = 0). Every member is compared with the definitional nested evaluation computed by the harness over the inserted rows with 3VL, so a defect shared by all members is still caught. distinct = (family, set of join algorithm / rewrite probes that fired inside the family, NULLs present, result size class).",
            floor: 20,
            shards: 16,
            cpu_budget_ms: 60_000,
            run: c05::run,
            assumptions: &["members that the engine rejects with an error are counted, not judged"],
        },
        CheckDef {
            id: "C06",
            level: "exploration",
            rule: "Two generated tables (NULL density 0/15/40/100 %, duplicates, empty tables), optional indexes on a / c so that pushdown and index scans are in play. For a generated rows-producing query Q (single table or two-table join, optional own WHERE) and predicate p (comparisons, AND/OR/NOT, IS [NOT] NULL, BETWEEN, IN lists with NULL, LIKE, CASE, arithmetic) the engine is asked Q, Q AND p, Q AND NOT p, Q AND (p) IS NULL: plain form compares the multiset union; DISTINCT compares after de-duplication (and that DISTINCT returned no duplicate); aggregate / GROUP BY forms merge COUNT/SUM (add) and MIN/MAX (fold) per key; count form compares COUNT(*) WHERE p with the number of TRUE values of SELECT (p). Failing predicates are shrunk. A case in which any of the queries errors is skipped and counted. distinct = (form, single/join, predicate feature tags).",
            floor: 150,
            shards: 16,
            cpu_budget_ms: 60_000,
            run: c06::run,
            assumptions: &["oracle is the engine itself (ternary-logic partitioning); only well-typed predicates are generated"],
        },
        CheckDef {
            id: "C07",
            level: "exploration",
            rule: "Same tables as C03; statements additionally use GROUP BY (int, text, two-column keys; NULL keys), DISTINCT aggregates and HAVING. Expected rows are computed by a naive model from the inserted rows (exact i128 / f64 arithmetic, NULLs skipped, NULL when no value, one row per distinct key with NULLs as one group, exactly one row without GROUP BY) and compared with the engine on BOTH execution paths. distinct = (aggregate shapes, predicate shapes, grouping, clauses, size class, nulls, path).",
            floor: 100,
            shards: 16,
            cpu_budget_ms: 60_000,
            run: c03::run_c07,
            assumptions: &["rows are inserted through Database::insert_row so that -0.0 and exact doubles reach the table"],
        },
        CheckDef {
            id: "C08",
            level: "exploration",
            rule: "Table t(id, a, b, c VARCHAR, d DOUBLE) with 0..14 rows, ties and NULLs (density 0/20/50 %), optional index on a / c / (a, b) / a DESC. ORDER BY lists of 1-3 keys written as column, expression, select-list alias or position, ASC/DESC; LIMIT from {0, 1, 2, n-1, n, n+1, 1000}, OFFSET from {0, 1, 2, n-1, n, n+3}. The statement is issued with the key expressions appended as extra output columns and also without ORDER BY/LIMIT; the harness sorts the unordered rows itself (stable, NULLs last in both directions) and checks: row count == slice [m, m+n), output sorted by the keys, key sequence == key sequence of the slice, every row present in the unordered result, permutation when no LIMIT/OFFSET, and the statement as written (no appended keys) returns the same rows. DISTINCT statements are checked for each distinct row exactly once and for DISTINCT-before-LIMIT. distinct = (key forms, DESC, key count, limit class, offset class, index, order produced by index or by sort).",
            floor: 80,
            shards: 16,
            cpu_budget_ms: 60_000,
            run: c08::run,
            assumptions: &["documented rule NULLs last for ASC and DESC", "rows inside a tie group may come back in any order"],
        },
        CheckDef {
            id: "C17",
            level: "exploration",
            rule: "One case = one tree on a real page file in a private temp dir: empty or bulk-loaded (0..1500 sorted entries), key schema from {VARCHAR(200) (degree 5), INTEGER+VARCHAR(100) (degree 9), VARCHAR(50), INTEGER, DOUBLE} with NULL components and duplicate keys, key domain 8..2000, then 50-2500 random insert / delete / delete_specific / lookup / multi_lookup / range_scan (all four bound inclusivities, open ends, inverted bounds) with an optional delete-heavy final third; every answer is compared with BTreeMap<Key, Vec<RowId>> (row ids globally unique, so scan order across keys is checkable); every 40 operations the persisted tree is dumped through the verif hook and checked (sorted keys, separators bound subtrees, uniform leaf depth, leaf chain == in-order leaves, contents == model); finally the file is reopened with BTreeIndex::load and compared again. distinct = (schema, bulk/empty, key domain, max height reached, root collapse seen, delete phase).",
            floor: 12,
            shards: 16,
            cpu_budget_ms: 120_000,
            run: c17::run,
            assumptions: &["NativeStorage page files in the system temp dir", "minimum node occupancy is not part of the stated well-formedness and is not judged"],
        },
        CheckDef {
            id: "C20",
            level: "fault_enumeration",
            rule: "Two generated databases (all column types, NULLs, index, UNIQUE, view) are saved in binary, compressed, JSON and SQL-dump form (8 valid files). Section A enumerates EVERY byte offset 0..=len of every file and applies at that offset: truncation, 0x00, 0xFF, all 8 single-bit flips, +-1..3 of the byte, every small value 1..12 (1..40 in thorough), every 32/64-bit little-endian length overwrite from {0, 1, 2^31-1, 2^32-1, 2^63-1, 2^63, 2^64-1}, byte deletion and insertion; each damaged file is loaded through the format's loader and (header region) through the sniffing Database::load. Section B loads random byte strings, valid-header+random-tail, multi-byte edits, splices and block repetitions. Monitor per load: catch_unwind, largest single allocation request seen by a counting global allocator (limit 64 MiB + 16 x file size), process abort / 20 s CPU budget via the shard runner. distinct = (format, mutation kind, loader, loaded|error).",
            floor: 30,
            shards: 16,
            cpu_budget_ms: 20_000,
            run: c20::run,
            assumptions: &["the counting allocator observes requests of the whole process (single-threaded shard)", "files are small (<= a few KiB) so that every offset can be enumerated"],
        },
        CheckDef {
            id: "C21",
            level: "exploration",
            rule: "Fixed pool covering every SqlValue variant (NaN payloads, +-0.0, infinities, subnormals, integer extremes, strings incl. Unicode/empty, temporal boundaries, intervals in different units, NULL) enumerated exhaustively for pairs and triples (case 0) plus pools with random extras; then SQL-level cases (DISTINCT/GROUP BY/UNION on tables holding those values, with and without an index). distinct = value-class pair exercised by a law, or (sql form, type family, number of == classes, index) reached with a successful query.",
            floor: 50,
            shards: 6,
            cpu_budget_ms: 120_000,
            run: c21::run,
            assumptions: &["std DefaultHasher stands in for the engine's hashers (any Hasher must agree on equal values)"],
        },
        CheckDef {
            id: "C22",
            level: "exploration",
            rule: "Case 0 enumerates a component grid (12 year widths x 12 months x boundary days; 6 hours x 4 minutes x 3 seconds x 14 nanosecond shapes; timestamps pairing them), case 1 an interval grid; further cases draw random valid values and mutate valid temporal texts (multi-byte/non-ASCII digits at every position, overflowing digit runs, truncation, sign/separator noise) through every FromStr / Interval::new and through SQL CAST / typed literals. distinct = (component shape) for round-trips, (parser, base text, accepted|rejected) for hostile inputs.",
            floor: 100,
            shards: 8,
            cpu_budget_ms: 60_000,
            run: c22::run,
            assumptions: &["valid DATE = proleptic Gregorian year 1..9999 with a real day of month"],
        },
        CheckDef {
            id: "C23",
            level: "exploration",
            rule: "Corpus harvested at run time from the repository's own test sources (SQL string literals, .sql/.test files; tens of thousands of statements) plus built-in statements of every kind; each case takes one corpus text and applies one mutation: verbatim, token delete/duplicate/swap, truncation at a random point, splice of two statements, nesting amplification (parentheses, NOT, unary minus, + chains, derived tables, CASE, function calls, IN-subqueries; depth 10..20000), huge numeric/string/identifier literals, unterminated quote/comment openers, injected Unicode/NUL/quote characters. Inputs are capped at 64 KiB. Oracle: catch_unwind for panics; the shard runner attributes aborts (stack overflow) and per-case CPU-budget overruns (4 s) to the running case. distinct = (mutation kind [+depth/size], parsed|error).",
            floor: 20,
            shards: 16,
            cpu_budget_ms: 4_000,
            run: c23::run,
            assumptions: &["parser runs on the shard's main thread (8 MiB stack)", "never hangs is restated as: <= 4 s CPU for an input <= 64 KiB"],
        },
        CheckDef {
            id: "C27",
            level: "exploration",
            rule: "Four case families: (0) streams of 1-6 well-formed Query/Password/Terminate frames with arbitrary payloads and a partial tail, decoded one by one; (1) every strict prefix of a valid regular and startup frame; (2) a hostile first frame (length field from {negative, 0..8, len-2..len+7, 2^24, i32::MAX}, missing/early/late NUL, invalid UTF-8, unknown type byte) followed by a well-formed frame; (3) startup/SSLRequest frames, well-formed and with hostile lengths, followed by a regular frame. The monitor records bytes consumed per decode call against the declared frame end. distinct = (family, message kind, position/cut or length class x terminator layout, decode outcome).",
            floor: 60,
            shards: 8,
            cpu_budget_ms: 20_000,
            run: c27::run,
            assumptions: &["messages.rs is compiled into the harness unchanged via #[path]; connection.rs is not driven", "under-consumption of a malformed frame (early NUL) is not flagged: the statement only forbids consuming beyond the declared length"],
        },
        CheckDef {
            id: "C28",
            level: "exploration",
            rule: "Random BackendMessage values of all 12 variants (empty/long/non-ASCII strings, embedded NUL with low probability, NULL/empty/binary/large row values, up to 1700 fields) are encoded after random pre-existing buffer bytes and re-parsed by an independent PostgreSQL v3 parser that demands length == bytes after the type byte and full consumption. distinct = (variant, frame-size class, has embedded NUL).",
            floor: 25,
            shards: 8,
            cpu_budget_ms: 20_000,
            run: c28::run,
            assumptions: &["the harness parser encodes the author's reading of the PostgreSQL v3 message formats"],
        },
        CheckDef {
            id: "C29",
            level: "exploration",
            rule: "Stores built through add_user / add_user_hashed / load_from_file (representable subset of the documented format) with names and passwords including empty, non-ASCII, ':' '#' '$' and format-prefix look-alikes; every user (plus unknown and empty names) is probed with the exact password, 3 near misses (case, spaces, NUL, prefix/suffix, extension), another user's password, and 12 MD5 responses (exact, other salt/user/password, truncated, extended, double prefix, upper-case hex, inner hash, cleartext, empty). Oracle: credential model with independently computed PostgreSQL MD5. distinct = (verifier, stored-secret kind, attempt kind, expected verdict).",
            floor: 40,
            shards: 16,
            cpu_budget_ms: 120_000,
            run: c29::run,
            assumptions: &["md-5 and argon2 crates are trusted", "an MD5 response without the 'md5' prefix but with the right hex digest is treated as don't-care"],
        },
        CheckDef {
            id: "C32",
            level: "exploration",
            rule: "Two generated base tables; a definition (projection+filter, GROUP BY aggregate, INNER/LEFT join, DISTINCT; columns named by aliases or by an explicit column list) is installed as view v and also used as CTE w; outer queries (all columns, filters incl. IS NULL on view columns - predicate pushdown into the view scan -, aggregates, join with a base table, GROUP BY) are run through the view, through the CTE and with the definition inlined as a derived table; three rounds with INSERT/UPDATE/DELETE on the base tables in between (the view must track them). distinct = (reference kind, definition kind, outer kind, column list, before/after DML, result size class).",
            floor: 40,
            shards: 16,
            cpu_budget_ms: 60_000,
            run: c32::run,
            assumptions: &["the inlined derived-table form is the oracle; an outer query whose inlined form is rejected is counted, not judged"],
        },
    ]
}
