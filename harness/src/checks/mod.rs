use crate::CheckDef;

pub mod c21;

pub fn registry() -> &'static [CheckDef] {
    &[
        CheckDef {
            id: "C21",
            level: "exploration",
            rule: "Fixed pool covering every SqlValue variant (NaN payloads, +-0.0, infinities, subnormals, integer extremes, strings incl. Unicode/empty, temporal boundaries, intervals in different units, NULL) enumerated exhaustively for pairs and triples (case 0) plus pools with random extras; then SQL-level cases (DISTINCT/GROUP BY/UNION on tables holding those values, with and without an index). distinct = value-class pair exercised by a law, or (sql form, type family, number of == classes, index) reached with a successful query.",
            floor: 50,
            shards: 6,
            cpu_budget_ms: 120_000,
            run: c21::run,
            assumptions: &["std DefaultHasher stands in for the engine's hashers (any Hasher must agree on equal values)"],
        },
    ]
}
