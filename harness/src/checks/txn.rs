//! C13 — ROLLBACK restores the state at BEGIN (COMMIT keeps the last state);
//! C14 — ROLLBACK TO SAVEPOINT restores the state at the savepoint (stack-of-snapshots model).

use std::collections::BTreeMap;

use serde_json::json;

use crate::core::canon::{multiset_eq, show_rows, CRow};
use crate::core::ctx::Ctx;
use crate::core::rng::Rng;
use crate::core::session::{Outcome, Session};
use crate::core::util::panic_class;

fn hist(s: &Session) -> serde_json::Value {
    json!(s.history.iter().map(|e| format!("{}  -- {}", e.sql, crate::core::util::trunc(&e.outcome, 50))).collect::<Vec<_>>())
}

fn q(s: &mut Session, sql: &str) -> Result<Vec<CRow>, String> {
    let rec = s.record;
    s.record = false;
    let r = s.query(sql);
    s.record = rec;
    r
}

/// Everything a user can observe that C13 talks about.
fn observe(s: &mut Session) -> BTreeMap<String, String> {
    let mut o = BTreeMap::new();
    let mut tables = s.db.list_tables();
    tables.sort();
    o.insert("listing:tables".into(), format!("{:?}", tables));
    let mut idx = s.db.list_indexes();
    idx.sort();
    o.insert("listing:indexes".into(), format!("{:?}", idx));
    let mut views: Vec<String> = s.db.catalog.list_views();
    views.sort();
    o.insert("listing:views".into(), format!("{:?}", views));
    // declared columns as the catalog and as the stored table see them
    for t in ["T", "U", "W"] {
        let cat = s.db.catalog.get_table(t).map(|sc| sc.columns.iter().map(|c| format!("{}:{:?}:{}", c.name, c.data_type, c.nullable)).collect::<Vec<_>>());
        let sto = s.db.get_table(t).map(|tb| tb.schema.columns.iter().map(|c| format!("{}:{:?}:{}", c.name, c.data_type, c.nullable)).collect::<Vec<_>>());
        o.insert(format!("schema:catalog:{}", t), format!("{:?}", cat));
        o.insert(format!("schema:storage:{}", t), format!("{:?}", sto));
    }
    for t in ["t", "u"] {
        let r = q(s, &format!("SELECT * FROM {}", t)).map(|mut rows| {
            crate::core::canon::sort_rows(&mut rows);
            show_rows(&rows, 50).join(" ")
        });
        o.insert(format!("rows:{}", t), format!("{:?}", r));
    }
    for (name, sql) in [
        ("probe:eq-a", "SELECT id FROM t WHERE a = 1 ORDER BY id"),
        ("probe:range-a", "SELECT id, a FROM t WHERE a >= 0 ORDER BY a, id"),
        ("probe:eq-c", "SELECT id FROM t WHERE c = 'x' ORDER BY id"),
        ("probe:order-a", "SELECT a, id FROM t ORDER BY a, id"),
        ("probe:pk", "SELECT a FROM t WHERE id = 2"),
        ("probe:count", "SELECT COUNT(*) FROM t"),
    ] {
        o.insert(name.into(), format!("{:?}", q(s, sql).map(|r| show_rows(&r, 50).join(" "))));
    }
    o
}

fn first_diff(a: &BTreeMap<String, String>, b: &BTreeMap<String, String>) -> Option<(String, String, String)> {
    for (k, v) in a {
        let w = b.get(k).cloned().unwrap_or_default();
        if *v != w {
            return Some((k.clone(), v.clone(), w));
        }
    }
    None
}

fn txn_statement(rng: &mut Rng, next_id: &mut i64, ddl: bool) -> (String, &'static str) {
    // statements that try to open a second transaction inside the open one (rejected, but they
    // must not disturb what ROLLBACK restores)
    if rng.chance(1, 12) {
        return if rng.chance(1, 2) { ("BEGIN".to_string(), "nested-begin") } else { (format!("CREATE SCHEMA sx{}", rng.below(2)), "create-schema") };
    }
    // the table without key accepts identical rows: undoing one of them must not touch the others
    if rng.chance(1, 6) {
        let k = *rng.pick(&[1, 9]);
        return (format!("INSERT INTO u VALUES ({}, {})", k, k), "insert-duplicate-row-keyless-table");
    }
    let r = rng.below(if ddl { 16 } else { 9 });
    match r {
        0..=2 => {
            *next_id += 1;
            (format!("INSERT INTO t VALUES ({}, {}, {}, '{}')", next_id, rng.range(0, 4), rng.range(0, 4), rng.pick(&["x", "y", "z"])), "insert")
        }
        3 | 4 => (format!("UPDATE t SET a = {} WHERE {}", rng.range(0, 5), rng.pick(&["id = 2", "a = 1", "b > 1", "c = 'x'"])), "update"),
        5 | 6 => (format!("DELETE FROM t WHERE {}", rng.pick(&["id = 1", "a = 1", "b < 2", "id > 3"])), "delete"),
        7 => ("UPDATE t SET c = 'x' WHERE id > 0".to_string(), "update"),
        8 => ("INSERT INTO u VALUES (9, 9)".to_string(), "insert-other-table"),
        9 => ("TRUNCATE TABLE t".to_string(), "truncate"),
        10 => (format!("CREATE INDEX ix_new{} ON t (b)", rng.below(2)), "create-index"),
        11 => ("DROP INDEX ix_a".to_string(), "drop-index"),
        12 => ("CREATE TABLE w (k INTEGER)".to_string(), "create-table"),
        13 => ("DROP TABLE u".to_string(), "drop-table"),
        14 => match rng.below(3) {
            0 => ("ALTER TABLE t ADD COLUMN z INTEGER".to_string(), "alter-add-column"),
            1 => ("ALTER TABLE t ALTER COLUMN b SET NOT NULL".to_string(), "alter-set-not-null"),
            _ => ("CREATE TABLE u (k INTEGER)".to_string(), "recreate-table-other-shape"),
        },
        _ => ("DELETE FROM t".to_string(), "delete-all"),
    }
}

pub fn run_c13(ctx: &mut Ctx) {
    let total = ctx.n(2500, 120_000);
    for case in ctx.my_cases(total) {
        ctx.begin_case(case);
        let mut rng = ctx.rng(case);
        let mut s = Session::new();
        s.must("CREATE TABLE t (id INTEGER PRIMARY KEY, a INTEGER, b INTEGER, c VARCHAR(10))");
        s.must("CREATE TABLE u (k INTEGER, v INTEGER)");
        if rng.chance(1, 2) {
            s.must("INSERT INTO u VALUES (1, 1)");
        }
        let with_index = rng.chance(2, 3);
        if with_index {
            s.must("CREATE INDEX ix_a ON t (a)");
        }
        if rng.chance(1, 3) {
            s.must("CREATE INDEX ix_c ON t (c)");
        }
        let mut next_id = 0i64;
        for _ in 0..rng.range(0, 5) {
            next_id += 1;
            s.must(&format!("INSERT INTO t VALUES ({}, {}, {}, '{}')", next_id, rng.range(0, 4), rng.range(0, 4), rng.pick(&["x", "y", "z"])));
        }
        let ddl = rng.chance(1, 2);
        let commit = rng.chance(1, 4);
        let before = observe(&mut s);
        if s.exec("BEGIN").is_err() {
            ctx.count("begin_failed", 1);
            continue;
        }
        let mut kinds: Vec<&'static str> = Vec::new();
        let mut changed = false;
        for _ in 0..rng.range(1, 7) {
            let (sql, kind) = txn_statement(&mut rng, &mut next_id, ddl);
            ctx.eval();
            let o = s.exec(&sql);
            if let Outcome::Panic(p) = &o {
                ctx.violation(case, format!("panic:{}:{}", kind, panic_class(p)), json!({"history": hist(&s)}));
                break;
            }
            if !o.is_err() {
                kinds.push(kind);
                changed = true;
            }
        }
        kinds.sort();
        kinds.dedup();
        let last = observe(&mut s);
        let end = if commit { "COMMIT" } else { "ROLLBACK" };
        let o = s.exec(end);
        if o.is_err() {
            ctx.violation(case, format!("{}-failed", end.to_lowercase()), json!({"outcome": o.brief(), "history": hist(&s)}));
            continue;
        }
        let after = observe(&mut s);
        let reference = if commit { &last } else { &before };
        let ddl_kinds: Vec<&&str> = kinds.iter().filter(|k| ["truncate", "create-index", "drop-index", "create-table", "drop-table", "alter-add-column", "alter-set-not-null", "recreate-table-other-shape"].contains(*k)).collect();
        if let Some((what, want, got)) = first_diff(reference, &after) {
            let obs_class = what.split(':').next().unwrap_or("").to_string() + ":" + if what.starts_with("probe") { "index-driven-query" } else { what.split(':').nth(1).unwrap_or("") };
            let cause = if ddl_kinds.is_empty() { "dml-only".to_string() } else { ddl_kinds.iter().map(|k| k.to_string()).collect::<Vec<_>>().join("+") };
            ctx.violation(case, format!("{}:{}|{}|index={}", end.to_lowercase(), obs_class, cause, with_index), json!({"observable": what, "expected": want, "got": got, "history": hist(&s)}));
        } else if changed {
            ctx.nontrivial(format!("{}|{}|index={}", end.to_lowercase(), kinds.join("+"), with_index));
            let n = s.history.len();
            ctx.sample(|| json!({"end": end, "statements_in_transaction": kinds, "history_len": n}));
        }
    }
}

/// rows of t followed by the rows of the keyless table u (tagged), as one multiset
fn both_tables(s: &mut Session) -> Vec<CRow> {
    let mut rows = q(s, "SELECT id, a, b, c FROM t").unwrap_or_default();
    rows.extend(q(s, "SELECT k, v, -1, 'table-u' FROM u").unwrap_or_default());
    rows
}

pub fn run_c14(ctx: &mut Ctx) {
    let total = ctx.n(12_000, 120_000);
    for case in ctx.my_cases(total) {
        ctx.begin_case(case);
        let mut rng = ctx.rng(case);
        let mut s = Session::new();
        s.must("CREATE TABLE t (id INTEGER PRIMARY KEY, a INTEGER, b INTEGER, c VARCHAR(10))");
        // a table without any key: identical rows are legal there
        s.must("CREATE TABLE u (k INTEGER, v INTEGER)");
        for _ in 0..rng.range(0, 3) {
            s.must("INSERT INTO u VALUES (1, 1)");
        }
        let mut next_id = 0i64;
        for _ in 0..rng.range(0, 4) {
            next_id += 1;
            s.must(&format!("INSERT INTO t VALUES ({}, {}, {}, 'p')", next_id, rng.range(0, 4), rng.range(0, 4)));
        }
        let insert_only = rng.chance(1, 2);
        s.must("BEGIN");
        // model: stack of (name, table snapshot, DML kinds executed since)
        let mut stack: Vec<(String, Vec<CRow>)> = Vec::new();
        let mut dml_since: Vec<Vec<&'static str>> = Vec::new(); // parallel to stack
        let mut maybe: Vec<bool> = Vec::new(); // parallel to stack: fate unspecified after a RELEASE below it
        // what RELEASE does to the savepoints established after the released one is left open by
        // the statement (standard SQL destroys them, this engine keeps them); the first decision
        // the engine makes on such a savepoint fixes the reading for the rest of the case, and it
        // must then be followed consistently: Some(true) = later savepoints survive a RELEASE
        let mut keeps_later: Option<bool> = None;
        let mut ok = true;
        let steps = rng.range(3, if ctx.quick() { 16 } else { 30 });
        for _ in 0..steps {
            let r = rng.below(12);
            let name = rng.pick(&["sa", "sb", "sc", "sd"]).to_string();
            ctx.eval();
            match r {
                0..=4 => {
                    let (sql, kind) = loop {
                        let (sql, kind) = txn_statement(&mut rng, &mut next_id, false);
                        if kind == "insert-other-table" {
                            continue;
                        }
                        if insert_only && kind != "insert" && kind != "insert-duplicate-row-keyless-table" {
                            continue;
                        }
                        break (sql, kind);
                    };
                    let o = s.exec(&sql);
                    if let Outcome::Panic(p) = &o {
                        ctx.violation(case, format!("panic:{}:{}", kind, panic_class(p)), json!({"history": hist(&s)}));
                        ok = false;
                        break;
                    }
                    if !o.is_err() {
                        for d in dml_since.iter_mut() {
                            d.push(kind);
                        }
                    }
                }
                5..=7 => {
                    // the statement does not say what a second live savepoint of the same name means: keep live names unique
                    if stack.iter().any(|(n, _)| *n == name.to_uppercase()) {
                        continue;
                    }
                    let snap = both_tables(&mut s);
                    let o = s.exec(&format!("SAVEPOINT {}", name));
                    if !o.is_err() {
                        stack.push((name.to_uppercase(), snap));
                        dml_since.push(Vec::new());
                        maybe.push(false);
                    } else if let Outcome::Panic(p) = &o {
                        ctx.violation(case, format!("panic:savepoint:{}", panic_class(p)), json!({"history": hist(&s)}));
                        ok = false;
                        break;
                    }
                }
                8 => {
                    // RELEASE of any live savepoint (or an unknown name). Savepoints created after a released one have
                    // an unspecified fate: they are marked "maybe" and only judged if the engine still accepts them.
                    let name = if !stack.is_empty() && rng.chance(3, 4) { stack[rng.usize(stack.len())].0.to_lowercase() } else if stack.iter().any(|(n, _)| *n == name.to_uppercase()) { "szz".to_string() } else { name.clone() };
                    let before = both_tables(&mut s);
                    let o = s.exec(&format!("RELEASE SAVEPOINT {}", name));
                    if let Outcome::Panic(p) = &o {
                        ctx.violation(case, format!("panic:release:{}", panic_class(p)), json!({"history": hist(&s)}));
                        ok = false;
                        break;
                    }
                    let after = both_tables(&mut s);
                    if !multiset_eq(&before, &after, 0.0) {
                        ctx.violation(case, "release-changed-data", json!({"before": show_rows(&before, 20), "after": show_rows(&after, 20), "history": hist(&s)}));
                        ok = false;
                        break;
                    }
                    let pos = stack.iter().rposition(|(n, _)| *n == name.to_uppercase());
                    match (pos, o.is_err()) {
                        (Some(p), false) => {
                            let was_maybe = maybe[p];
                            stack.remove(p);
                            dml_since.remove(p);
                            maybe.remove(p);
                            if was_maybe {
                                // accepted on a savepoint of unspecified fate: the engine keeps them
                                keeps_later = Some(true);
                                maybe.iter_mut().for_each(|m| *m = false);
                            }
                            match keeps_later {
                                None => maybe.iter_mut().skip(p).for_each(|m| *m = true),
                                Some(true) => {}
                                Some(false) => {
                                    stack.truncate(p);
                                    dml_since.truncate(p);
                                    maybe.truncate(p);
                                }
                            }
                        }
                        (None, false) => {
                            ctx.violation(case, "release-of-unknown-savepoint-accepted", json!({"name": name, "history": hist(&s)}));
                            ok = false;
                            break;
                        }
                        (Some(p), true) => {
                            if !maybe[p] {
                                ctx.violation(case, "release-of-live-savepoint-rejected", json!({"name": name, "error": o.brief(), "history": hist(&s)}));
                                ok = false;
                                break;
                            }
                            // rejected on a savepoint of unspecified fate: the engine destroys them
                            keeps_later = Some(false);
                            let first_maybe = maybe.iter().position(|m| *m).unwrap_or(p);
                            stack.truncate(first_maybe);
                            dml_since.truncate(first_maybe);
                            maybe.truncate(first_maybe);
                        }
                        (None, true) => {}
                    }
                }
                _ => {
                    let o = s.exec(&format!("ROLLBACK TO SAVEPOINT {}", name));
                    if let Outcome::Panic(p) = &o {
                        let insert_hist = dml_since.iter().all(|d| d.iter().all(|k| k.starts_with("insert")));
                        ctx.violation(case, format!("panic:rollback-to:{}|{}", panic_class(p), if insert_hist { "insert-only" } else { "with-update-or-delete" }), json!({"history": hist(&s)}));
                        ok = false;
                        break;
                    }
                    let pos = stack.iter().rposition(|(n, _)| *n == name.to_uppercase());
                    let after = both_tables(&mut s);
                    match (pos, o.is_err()) {
                        (Some(p), false) => {
                            if maybe[p] {
                                keeps_later = Some(true);
                                maybe.iter_mut().for_each(|m| *m = false);
                            }
                            let since: Vec<&'static str> = dml_since[p].clone();
                            let class = if since.iter().all(|k| k.starts_with("insert")) { "insert-only" } else { "with-update-or-delete" };
                            if !multiset_eq(&stack[p].1, &after, 0.0) {
                                ctx.violation(case, format!("rollback-to-savepoint:table-differs-from-savepoint-state|{}", class), json!({"savepoint": name, "expected": show_rows(&stack[p].1, 20), "got": show_rows(&after, 20), "dml_since_savepoint": since, "history": hist(&s)}));
                                ok = false;
                                break;
                            }
                            // s stays, later savepoints are destroyed
                            stack.truncate(p + 1);
                            dml_since.truncate(p + 1);
                            maybe.truncate(p + 1);
                            dml_since[p].clear();
                            ctx.nontrivial(format!("rollback-to|depth{}|{}|since={}", p, class, since.len().min(3)));
                        }
                        (Some(p), true) if maybe[p] && o.brief().contains("not found") && o.brief().to_lowercase().contains("savepoint") => {
                            // destroyed by an earlier RELEASE under the stricter reading: accept, and
                            // hold the engine to that reading from now on
                            keeps_later = Some(false);
                            let first_maybe = maybe.iter().position(|m| *m).unwrap_or(p);
                            stack.truncate(first_maybe);
                            dml_since.truncate(first_maybe);
                            maybe.truncate(first_maybe);
                        }
                        (Some(p), true) => {
                            let class = if dml_since[p].iter().all(|k| k.starts_with("insert")) { "insert-only" } else { "with-update-or-delete" };
                            ctx.violation(case, format!("rollback-to-live-savepoint-rejected|{}", class), json!({"name": name, "error": o.brief(), "stack": stack.iter().map(|x| x.0.clone()).collect::<Vec<_>>(), "history": hist(&s)}));
                            ok = false;
                            break;
                        }
                        (None, false) => {
                            ctx.violation(case, "rollback-to-unknown-or-destroyed-savepoint-accepted", json!({"name": name, "stack": stack.iter().map(|x| x.0.clone()).collect::<Vec<_>>(), "history": hist(&s)}));
                            ok = false;
                            break;
                        }
                        (None, true) => ctx.nontrivial("rollback-to-unknown-rejected".to_string()),
                    }
                }
            }
        }
        if ok {
            let _ = s.exec(if rng.chance(1, 2) { "COMMIT" } else { "ROLLBACK" });
            let n = s.history.len();
            ctx.sample(|| json!({"insert_only": insert_only, "history_len": n, "tail": s.history.iter().rev().take(6).map(|e| e.sql.clone()).collect::<Vec<_>>() }));
        }
    }
}
