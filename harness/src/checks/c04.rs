//! C04 — results do not depend on the parallelism configuration.
//! One process runs every query three times on the same state: with every parallelism decision
//! forced to "sequential" (switch parallel_never), and twice with every decision forced to
//! "parallel" (switch parallel_always), on rayon pools of different sizes (one per shard).

use serde_json::json;
use vibesql_types::verif_probe;

use crate::core::canon::{multiset_eq, seq_eq, show_rows, CRow};
use crate::core::ctx::Ctx;
use crate::core::rng::Rng;
use crate::core::session::{Outcome, Session};
use crate::core::util::panic_class;

const THREADS: [usize; 6] = [1, 2, 3, 4, 8, 16];

fn pred(rng: &mut Rng, q: &str) -> String {
    let p = |c: &str| format!("{}{}", q, c);
    match rng.below(9) {
        0 => format!("{} >= {}", p("a"), rng.range(0, 20)),
        1 => format!("{} = {}", p("a"), rng.range(0, 20)),
        2 => format!("{} < {} AND {} >= {}", p("b"), rng.range(0, 1000), p("a"), rng.range(0, 10)),
        3 => format!("{} IS NULL OR {} > {}", p("a"), p("b"), rng.range(0, 1000)),
        4 => format!("{} LIKE '{}%'", p("c"), rng.pick(&["a", "b", "ab", "x"])),
        5 => format!("{} + {} > {}", p("a"), p("b"), rng.range(0, 1000)),
        6 => format!("{} BETWEEN {} AND {}", p("b"), rng.range(0, 500), rng.range(300, 1000)),
        7 => format!("{} IN ({}, {}, {})", p("a"), rng.range(0, 20), rng.range(0, 20), rng.range(0, 20)),
        _ => format!("{} - 3 * ({} / 3) = 0", p("id"), p("id")),
    }
}

/// (sql, total_order, shape)
fn gen_query(rng: &mut Rng) -> (String, bool, &'static str) {
    let w = |rng: &mut Rng, q: &str| if rng.chance(2, 3) { format!(" WHERE {}", pred(rng, q)) } else { String::new() };
    match rng.below(19) {
        0 | 1 => (format!("SELECT id, a, b FROM t1{}", w(rng, "")), false, "scan-filter"),
        2 => (format!("SELECT a, b, id FROM t1{} ORDER BY a{}, b, id", w(rng, ""), rng.pick(&["", " DESC"])), true, "order-by-total"),
        3 => (format!("SELECT c, id FROM t1{} ORDER BY c{}, id DESC", w(rng, ""), rng.pick(&["", " DESC"])), true, "order-by-text-total"),
        4 => (format!("SELECT a, id FROM t1{} ORDER BY a", w(rng, "")), false, "order-by-with-ties"),
        5 => (format!("SELECT COUNT(*), SUM(a), MIN(b), MAX(b), AVG(b) FROM t1{}", w(rng, "")), false, "aggregate"),
        6 => (format!("SELECT a, COUNT(*), SUM(b), MIN(c) FROM t1{} GROUP BY a", w(rng, "")), false, "group-by"),
        7 => (format!("SELECT x.id, y.id, y.c FROM t1 AS x INNER JOIN t2 AS y ON x.a = y.a{}", w(rng, "x.")), false, "hash-join-small-build"),
        8 => (format!("SELECT x.id, y.b FROM t1 AS x INNER JOIN t1 AS y ON x.id = y.id{}", w(rng, "y.")), false, "hash-join-large-build"),
        9 => (format!("SELECT id FROM t1 WHERE a IN (SELECT a FROM t2{})", w(rng, "")), false, "semi-join"),
        10 => (format!("SELECT id FROM t1 WHERE NOT EXISTS (SELECT 1 FROM t2 WHERE t2.a = t1.a){}", if rng.chance(1, 2) { format!(" AND {}", pred(rng, "t1.")) } else { String::new() }), false, "anti-join"),
        11 => (format!("SELECT DISTINCT a, c FROM t1{}", w(rng, "")), false, "distinct"),
        12 => (format!("SELECT id, b FROM t1 WHERE a >= {} AND b < {}", rng.range(0, 20), rng.range(0, 1000)), false, "index-range-plus-filter"),
        17 => (format!("SELECT a, id, b FROM t1 WHERE b <> {} ORDER BY a", rng.range(0, 1000)), false, "order-by-index-column-with-residual-filter"),
        18 => (format!("SELECT a, b FROM t1 WHERE b >= {} AND c LIKE '%1%' ORDER BY a DESC", rng.range(0, 500)), false, "order-by-index-column-desc-with-residual-filter"),
        15 => ("SELECT x.id, y.id FROM t1 AS x INNER JOIN t1 AS y ON x.k = y.k".to_string(), false, "hash-join-keys-repeat-across-partitions"),
        16 => (format!("SELECT x.id, y.id, y.k FROM t1 AS x INNER JOIN t1 AS y ON x.k = y.k WHERE x.id <= {}", rng.range(1, 4000)), false, "hash-join-keys-repeat-across-partitions"),
        13 => (format!("SELECT x.id, y.id FROM t1 AS x INNER JOIN t2 AS y ON x.a = y.a WHERE b < {} AND id > {}", rng.range(0, 1000), rng.range(0, 20)), false, "join-with-unqualified-shared-names"),
        _ => (format!("SELECT a, b, id FROM t1{} ORDER BY b DESC, id LIMIT {}", w(rng, ""), rng.range(1, 50)), true, "top-n"),
    }
}

fn run_with(s: &mut Session, sql: &str, always: bool) -> Outcome {
    verif_probe::set_switch("parallel_always", always);
    verif_probe::set_switch("parallel_never", !always);
    let o = s.exec(sql);
    verif_probe::set_switch("parallel_always", false);
    verif_probe::set_switch("parallel_never", false);
    o
}

pub fn run(ctx: &mut Ctx) {
    // one pool size per shard; must happen before rayon's global pool is first used
    let threads = THREADS[(ctx.shard as usize) % THREADS.len()];
    std::env::set_var("RAYON_NUM_THREADS", threads.to_string());
    let total = ctx.n(96, 1600);
    for case in ctx.my_cases(total) {
        ctx.begin_case(case);
        let mut rng = ctx.rng(case);
        // sanitizer runs: one mid-size table (two build partitions), few queries
        let small = std::env::var("VV_C04_SANITIZER").is_ok();
        let n1 = if small { 2050 } else { match rng.below(10) {
            0..=4 => rng.range(20, 300),
            5..=7 => rng.range(1000, 1600),
            _ => rng.range(2200, 3600),
        } };
        let n2 = rng.range(0, 40);
        let mut s = Session::new();
        s.record = false;
        s.must("CREATE TABLE t1 (id INTEGER PRIMARY KEY, a INTEGER, b INTEGER, c VARCHAR(10), k INTEGER)");
        s.must("CREATE TABLE t2 (id INTEGER PRIMARY KEY, a INTEGER, b INTEGER, c VARCHAR(10), k INTEGER)");
        // k repeats with a long period: unique inside one build partition, repeated across partitions
        let period = *rng.pick(&[1000i64, 1100, 1500, 1700]);
        let null_pct = *rng.pick(&[0u64, 10, 10, 30]);
        for (t, n) in [("t1", n1), ("t2", n2)] {
            let mut id = 0;
            while id < n {
                let mut rows = vec![];
                for _ in 0..200.min(n - id) {
                    id += 1;
                    let a = if rng.below(100) < null_pct { "NULL".to_string() } else { rng.range(0, 20).to_string() };
                    let b = if rng.below(100) < null_pct { "NULL".to_string() } else { rng.range(0, 1000).to_string() };
                    let c = if rng.below(100) < null_pct { "NULL".to_string() } else { format!("'{}{}'", rng.pick(&["a", "b", "ab", "x", "zz"]), rng.range(0, 30)) };
                    rows.push(format!("({}, {}, {}, {}, {})", id, a, b, c, id % period));
                }
                s.must(&format!("INSERT INTO {} VALUES {}", t, rows.join(", ")));
            }
        }
        let indexed = rng.chance(1, 2);
        if indexed {
            s.must("CREATE INDEX ix1 ON t1 (a)");
        }
        s.record = true;
        let size_class = if n1 < 1000 { "small" } else if n1 < 2000 { "medium" } else { "large" };
        for _ in 0..(if small { 10 } else { rng.range(6, 14) }) {
            let (sql, total_order, shape) = gen_query(&mut rng);
            let seq = run_with(&mut s, &sql, false);
            let par = run_with(&mut s, &sql, true);
            let probes = s.last_probes.clone();
            let par2 = run_with(&mut s, &sql, true);
            ctx.evals(3);
            let fail = |ctx: &mut Ctx, sig: String, extra: serde_json::Value| {
                ctx.violation(case, sig, json!({"query": sql, "threads": threads, "t1_rows": n1, "t2_rows": n2, "indexed": indexed, "null_pct": null_pct, "detail": extra}));
            };
            for o in [&seq, &par, &par2] {
                if let Outcome::Panic(p) = o {
                    fail(ctx, format!("panic:{}|{}", shape, panic_class(p)), json!(p));
                }
            }
            let used: Vec<&str> = probes.iter().filter(|(k, v)| k.starts_with("parallel_") && **v > 0).map(|(k, _)| *k).collect();
            let rows = |o: &Outcome| -> Option<Vec<CRow>> { o.rows().cloned() };
            match (rows(&seq), rows(&par), rows(&par2)) {
                (Some(a), Some(b), Some(c)) => {
                    // ORDER BY on the first output column (ties allowed): every run must be sorted on it
                    let order_key: Option<bool> = if shape.starts_with("order-by-index-column-desc") || sql.ends_with("ORDER BY a DESC") { Some(true) } else if shape == "order-by-with-ties" || shape.starts_with("order-by-index-column") { Some(false) } else { None };
                    if let Some(desc) = order_key {
                        for (which, rows) in [("sequential", &a), ("parallel", &b), ("parallel-repeat", &c)] {
                            if !crate::checks::c02::sorted_by(rows, &[(0, desc)]) {
                                fail(ctx, format!("result-not-in-order:{}|{}", which.split('-').next().unwrap(), shape), json!({"run": which, "first_rows": show_rows(rows, 25), "parallel_operators": used}));
                                break;
                            }
                        }
                    }
                    let eq = |x: &[CRow], y: &[CRow]| if total_order { seq_eq(x, y, 1e-9) } else { multiset_eq(x, y, 1e-9) };
                    if !eq(&a, &b) {
                        fail(ctx, format!("parallel-differs-from-sequential:{}", shape), json!({"sequential": show_rows(&a, 25), "parallel": show_rows(&b, 25), "rows": [a.len(), b.len()], "parallel_operators": used}));
                        break;
                    }
                    if !eq(&b, &c) {
                        fail(ctx, format!("parallel-run-not-repeatable:{}", shape), json!({"first": show_rows(&b, 25), "second": show_rows(&c, 25), "parallel_operators": used}));
                        break;
                    }
                    for u in &used {
                        ctx.count(&format!("queries-using:{}", u), 1);
                    }
                    ctx.count(&format!("threads:{}", threads), 1);
                    ctx.nontrivial(format!("{}|{}|{}|ops={}", shape, size_class, if indexed { "indexed" } else { "plain" }, used.join("+")));
                }
                (a, b, _) => {
                    if a.is_some() != b.is_some() {
                        fail(ctx, format!("outcome-differs:{}", shape), json!({"sequential": seq.brief(), "parallel": par.brief()}));
                        break;
                    }
                    ctx.count("both-rejected", 1);
                    if ctx.notes.len() < 3 {
                        ctx.notes.push(format!("rejected both ways: {} -> {}", sql, seq.brief()));
                    }
                }
            }
        }
        ctx.sample(|| json!({"t1_rows": n1, "t2_rows": n2, "threads": threads, "history_tail": s.history.iter().rev().take(3).map(|e| e.sql.clone()).collect::<Vec<_>>()}));
    }
}
