//! C32 — views and CTEs behave as their defining query (inlined twin), and views track base tables.

use serde_json::json;

use crate::core::canon::{multiset_eq, show_rows};
use crate::core::ctx::Ctx;
use crate::core::rng::Rng;
use crate::core::session::Outcome;
use crate::gen::build::gen_tables;
use crate::gen::dual::{load_vibe, tables_json};

struct Def {
    sql: String,
    cols: Vec<(&'static str, bool)>, // name, is_int
    kind: &'static str,
    column_list: bool,
    /// the same query with explicit aliases p, q, r (used for the inlined reference)
    aliased: String,
}

fn gen_def(rng: &mut Rng) -> Def {
    let t = *rng.pick(&["t1", "t2"]);
    let filt = *rng.pick(&["", " WHERE a > 0", " WHERE b IS NOT NULL", " WHERE a IS NULL OR b < 3", " WHERE c <> 'a'"]);
    let column_list = rng.chance(1, 3);
    match rng.below(4) {
        0 => {
            let aliased = format!("SELECT id AS p, a + b AS q, c AS r FROM {}{}", t, filt);
            let sql = if column_list { format!("SELECT id, a + b, c FROM {}{}", t, filt) } else { aliased.clone() };
            Def { aliased, sql, cols: vec![("p", true), ("q", true), ("r", false)], kind: "projection-filter", column_list }
        }
        1 => {
            let k = *rng.pick(&["b", "a", "c"]);
            let aliased = format!("SELECT {} AS p, COUNT(*) AS q, SUM(a) AS r FROM {}{} GROUP BY {}", k, t, filt, k);
            let sql = if column_list { format!("SELECT {}, COUNT(*), SUM(a) FROM {}{} GROUP BY {}", k, t, filt, k) } else { aliased.clone() };
            Def { aliased, sql, cols: vec![("p", k != "c"), ("q", true), ("r", true)], kind: "aggregate", column_list }
        }
        2 => {
            let on = *rng.pick(&["x.a = y.a", "x.b = y.id", "x.id = y.b"]);
            let jt = *rng.pick(&["INNER", "LEFT"]);
            let aliased = format!("SELECT x.id AS p, y.id AS q, x.c AS r FROM t1 AS x {} JOIN t2 AS y ON {}", jt, on);
            let sql = if column_list { format!("SELECT x.id, y.id, x.c FROM t1 AS x {} JOIN t2 AS y ON {}", jt, on) } else { aliased.clone() };
            Def { aliased, sql, cols: vec![("p", true), ("q", true), ("r", false)], kind: "join", column_list }
        }
        _ => {
            let aliased = format!("SELECT DISTINCT a AS p, b AS q, c AS r FROM {}{}", t, filt);
            let sql = if column_list { format!("SELECT DISTINCT a, b, c FROM {}{}", t, filt) } else { aliased.clone() };
            Def { aliased, sql, cols: vec![("p", true), ("q", true), ("r", false)], kind: "distinct", column_list }
        }
    }
}

/// Outer query text over relation name `v` (columns p, q, r)
fn gen_outer(rng: &mut Rng, d: &Def) -> (String, &'static str) {
    let intcols: Vec<&str> = d.cols.iter().filter(|c| c.1).map(|c| c.0).collect();
    let ic = *rng.pick(&intcols);
    match rng.below(6) {
        0 => ("SELECT p, q, r FROM v".to_string(), "all"),
        1 => (format!("SELECT p, r FROM v WHERE {} {} {}", ic, rng.pick(&["=", ">", "<=", "<>"]), rng.range(-1, 4)), "filter"),
        2 => (format!("SELECT q FROM v WHERE {} IS NULL OR {} > 1", ic, ic), "filter-null"),
        3 => (format!("SELECT COUNT(*), SUM({}), MAX({}) FROM v", ic, ic), "aggregate"),
        4 => (format!("SELECT v.p, t1.id FROM v INNER JOIN t1 ON v.{} = t1.id", ic), "join-base"),
        _ => (format!("SELECT {}, COUNT(*) FROM v GROUP BY {}", ic, ic), "group"),
    }
}

pub fn run(ctx: &mut Ctx) {
    let total = ctx.n(500, 30_000);
    for case in ctx.my_cases(total) {
        ctx.begin_case(case);
        let mut rng = ctx.rng(case);
        let tables = gen_tables(&mut rng, 2, 7);
        let mut s = load_vibe(&tables);
        let d = gen_def(&mut rng);
        let collist = if d.column_list { " (p, q, r)" } else { "" };
        let cv = s.exec(&format!("CREATE VIEW v{} AS {}", collist, d.sql));
        if cv.is_err() {
            if let Outcome::Panic(p) = &cv {
                ctx.violation(case, format!("panic:create-view:{}", crate::core::util::panic_class(p)), json!({"def": d.sql}));
            }
            ctx.count("create_view_rejected", 1);
            continue;
        }
        let mut next_id = 100;
        for round in 0..3 {
            if round > 0 {
                // change the base tables between uses
                for _ in 0..rng.range(1, 3) {
                    let t = *rng.pick(&["t1", "t2"]);
                    let dml = match rng.below(3) {
                        0 => {
                            next_id += 1;
                            format!("INSERT INTO {} SELECT {}, {}, {}, '{}'", t, next_id, rng.range(-2, 5), rng.range(-2, 5), rng.pick(&["a", "b", "zz"]))
                        }
                        1 => format!("UPDATE {} SET a = {} WHERE b {} {}", t, rng.range(-2, 5), rng.pick(&["=", ">", "<"]), rng.range(0, 3)),
                        _ => format!("DELETE FROM {} WHERE a {} {}", t, rng.pick(&["=", ">", "<"]), rng.range(0, 3)),
                    };
                    let _ = s.exec(&dml);
                }
            }
            for qi in 0..3 {
                let (outer, okind) = gen_outer(&mut rng, &d);
                let via_view = outer.clone();
                let inlined = outer.replacen("FROM v", &format!("FROM ({}) AS v", d.aliased), 1);
                let via_cte = format!("WITH v{} AS ({}) {}", collist, d.sql, outer);
                // the CTE must be tried on a database where the view name does not shadow it: use name w
                let via_cte = via_cte.replace("WITH v", "WITH w").replace("FROM v", "FROM w").replace(" v.", " w.").replace("(v.", "(w.").replace("SELECT v.", "SELECT w.");
                // a WITH clause of the referencing statement that reuses the name of a base table
                // must not reach into the view's body
                let shadow = *rng.pick(&["t1", "t2"]);
                let other = if shadow == "t1" { "t2" } else { "t1" };
                let via_view_shadowed = format!("WITH {} AS (SELECT id + 1000 AS id, a + 7 AS a, b, 'cte' AS c FROM {}) {}", shadow, other, outer);
                ctx.eval();
                let (ov, oi, oc) = (s.exec(&via_view), s.exec(&inlined), s.exec(&via_cte));
                // (only when the referencing statement itself does not name a base table: there
                // the CTE legitimately takes precedence)
                let outer_names_base = outer.contains("t1") || outer.contains("t2");
                let os = if outer_names_base { oi.clone() } else { s.exec(&via_view_shadowed) };
                let shape = format!("{}|{}|collist={}|round{}", d.kind, okind, d.column_list, round.min(1));
                let hist = || s.history.iter().filter(|e| !e.sql.starts_with("SELECT") && !e.sql.starts_with("WITH")).map(|e| e.sql.clone()).collect::<Vec<_>>();
                for (name, o) in [("view", &ov), ("cte", &oc), ("derived", &oi), ("view-under-shadowing-cte", &os)] {
                    if let Outcome::Panic(p) = o {
                        ctx.violation(case, format!("panic:{}:{}", name, crate::core::util::panic_class(p)), json!({"sql": via_view, "def": d.sql, "history": hist()}));
                    }
                }
                let Outcome::Rows(ri) = &oi else {
                    // derived-table form with a column list may be unsupported: fall back to no reference
                    ctx.count("inlined_form_rejected", 1);
                    if ctx.notes.is_empty() {
                        ctx.notes.push(format!("inlined form rejected: {} -> {}", crate::core::util::trunc(&inlined, 120), crate::core::util::trunc(&oi.brief(), 80)));
                    }
                    continue;
                };
                for (name, o, sql) in [("view", &ov, &via_view), ("cte", &oc, &via_cte), ("view-under-shadowing-cte", &os, &via_view_shadowed)] {
                    match o {
                        Outcome::Rows(r) => {
                            if !multiset_eq(r, ri, 1e-9) {
                                let kind = if r.len() < ri.len() { "missing-rows" } else if r.len() > ri.len() { "extra-rows" } else { "wrong-values" };
                                ctx.violation(case, format!("{}-differs-from-inlined:{}|{}", name, kind, shape), json!({"sql": sql, "inlined_sql": inlined, "got": show_rows(r, 12), "inlined": show_rows(ri, 12), "history": hist(), "tables_at_start": tables_json(&tables)}));
                            } else {
                                ctx.nontrivial(format!("{}|{}|rows{}", name, shape, ri.len().min(3)));
                            }
                        }
                        Outcome::Err(e) => {
                            ctx.violation(case, format!("{}-errors-but-inlined-works|{}", name, shape), json!({"sql": sql, "error": e, "inlined_sql": inlined, "inlined": show_rows(ri, 12), "history": hist()}));
                        }
                        _ => {}
                    }
                }
                // chained CTEs: a later CTE reads an earlier one outside its own FROM clause (second
                // operand of UNION ALL, scalar subquery in the select list); each form is compared
                // with what the defining query itself gives
                let hist_now = hist();
                if qi != 0 {
                    continue;
                }
                if let Ok(base) = s.query(&format!("SELECT COUNT(*) FROM ({}) AS v", d.aliased)) {
                    let n = match base.first().and_then(|r| r.first()) {
                        Some(crate::core::canon::Canon::Int(i)) => *i,
                        _ => -1,
                    };
                    let chained = [
                        (format!("WITH w{} AS ({}), w2 AS (SELECT p FROM w WHERE 1 = 0 UNION ALL SELECT p FROM w) SELECT COUNT(*) FROM w2", collist, d.sql), n, "chained-cte-union-operand"),
                        (format!("WITH w{} AS ({}), w2 AS (SELECT p FROM w UNION ALL SELECT p FROM w) SELECT COUNT(*) FROM w2", collist, d.sql), 2 * n, "chained-cte-union-both"),
                        (format!("WITH w{} AS ({}), w2 AS (SELECT (SELECT COUNT(*) FROM w) AS n FROM t1) SELECT MAX(n), MIN(n) FROM w2", collist, d.sql), n, "chained-cte-scalar-subquery"),
                    ];
                    for (sql, want, form) in chained.iter() {
                        if n < 0 {
                            break;
                        }
                        ctx.eval();
                        match s.exec(sql) {
                            Outcome::Rows(r) => {
                                let got = r.first().and_then(|row| row.first()).cloned();
                                let empty_t1 = *form == "chained-cte-scalar-subquery" && matches!(got, Some(crate::core::canon::Canon::Null));
                                let ok = matches!(&got, Some(crate::core::canon::Canon::Int(i)) if *i == *want) || empty_t1;
                                if !ok {
                                    ctx.violation(case, format!("cte-differs-from-inlined:{}|{}", form, d.kind), json!({"sql": sql, "got": show_rows(&r, 4), "expected_count": want, "history": hist_now}));
                                } else {
                                    ctx.nontrivial(format!("{}|{}|rows{}", form, d.kind, (*want).min(3)));
                                }
                            }
                            Outcome::Err(e) => {
                                ctx.violation(case, format!("cte-errors-but-inlined-works|{}|{}", form, d.kind), json!({"sql": sql, "error": e, "history": hist_now}));
                            }
                            Outcome::Panic(p) => ctx.violation(case, format!("panic:{}:{}", form, crate::core::util::panic_class(&p)), json!({"sql": sql})),
                            _ => {}
                        }
                    }
                }
                let vv = via_view.clone();
                let dd = d.sql.clone();
                ctx.sample(|| json!({"definition": dd, "query": vv}));
            }
        }
    }
}
