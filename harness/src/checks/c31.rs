//! C31 — CLI import/export transfers data faithfully and safely.
//! The CLI's own modules (commands.rs, data_io.rs, executor/*) are compiled into the harness;
//! `\copy` lines are parsed by MetaCommand::parse and executed by SqlExecutor::handle_copy.
//! Oracles: (A) export + import into an empty table of the same schema reproduces the rows;
//! (B) importing a generated RFC 4180 CSV / JSON file inserts exactly its records;
//! (C) nothing but the target table changes (canary table, table list).

use serde_json::json;
use vibesql_types::SqlValue;

use crate::commands::MetaCommand;
use crate::core::ctx::Ctx;
use crate::core::rng::Rng;
use crate::core::session::guard;
use crate::core::util::{panic_class, sql_quote};
use crate::executor::SqlExecutor;

type Rec = (i64, Option<String>, Option<String>, Option<i64>);

const HOSTILE: [(&str, &str); 27] = [
    ("plain", "alice"),
    ("plain", "bob smith"),
    ("comma", "a,b"),
    ("comma", ",lead"),
    ("double-quote", "say \"hi\""),
    ("double-quote", "\""),
    ("newline", "line1\nline2"),
    ("carriage-return", "cr\r\nlf"),
    ("carriage-return", "abc\r"),
    ("carriage-return", "\r"),
    ("carriage-return", "\rlead"),
    ("newline", "\n"),
    ("newline", "tail\n"),
    ("apostrophe", "O'Brien"),
    ("sql-fragment", "'); DROP TABLE other; --"),
    ("sql-fragment", "x'), (99, 'injected', 'row', 1); --"),
    ("null-text", "NULL"),
    ("null-text", "null"),
    ("empty", ""),
    ("surrounding-space", " lead"),
    ("surrounding-space", "trail "),
    ("unicode", "ünï 日本"),
    ("backslash", "back\\slash"),
    ("semicolon", "a;b"),
    ("comment", "--c /*d*/"),
    ("comma-and-quote", "x\",\"y"),
    ("number-like", "007"),
];

fn class_of(s: &Option<String>) -> &'static str {
    match s {
        None => "sql-null",
        Some(v) => HOSTILE.iter().find(|(_, h)| h == v).map(|(c, _)| *c).unwrap_or("other"),
    }
}

fn gen_records(rng: &mut Rng, n: usize, hostile_pct: u64) -> Vec<Rec> {
    (1..=n as i64)
        .map(|id| {
            let mut text = |rng: &mut Rng| {
                if rng.chance(1, 10) {
                    None
                } else if rng.below(100) < hostile_pct {
                    Some(rng.pick(&HOSTILE).1.to_string())
                } else {
                    Some(format!("v{}", rng.range(0, 50)))
                }
            };
            (id, text(rng), text(rng), if rng.chance(1, 8) { None } else { Some(rng.range(-1000, 1000)) })
        })
        .collect()
}

fn csv_field(s: &str) -> String {
    if s.contains(',') || s.contains('"') || s.contains('\n') || s.contains('\r') || s.starts_with(' ') || s.ends_with(' ') {
        format!("\"{}\"", s.replace('"', "\"\""))
    } else {
        s.to_string()
    }
}

/// read a table through the storage API (not through the CLI's text rendering)
fn read_table(x: &mut SqlExecutor, t: &str) -> Option<Vec<Rec>> {
    let tb = x.verif_db().get_table(t)?;
    let mut v: Vec<Rec> = tb
        .scan()
        .iter()
        .map(|r| {
            let i = |v: &SqlValue| match v {
                SqlValue::Integer(i) | SqlValue::Bigint(i) => Some(*i),
                SqlValue::Smallint(i) => Some(*i as i64),
                _ => None,
            };
            let s = |v: &SqlValue| match v {
                SqlValue::Varchar(s) | SqlValue::Character(s) => Some(s.clone()),
                SqlValue::Null => None,
                o => Some(format!("{:?}", o)),
            };
            (i(&r.values[0]).unwrap_or(i64::MIN), s(&r.values[1]), s(&r.values[3]), i(&r.values[2]))
        })
        .collect();
    v.sort();
    Some(v)
}

fn table_names(x: &mut SqlExecutor) -> Vec<String> {
    let mut t = x.verif_db().list_tables();
    t.sort();
    t
}

fn copy(x: &mut SqlExecutor, line: &str) -> Result<Result<(), String>, String> {
    guard(|| match MetaCommand::parse(line) {
        Some(MetaCommand::Copy { table, file_path, direction, format }) => x.handle_copy(&table, &file_path, direction, format).map_err(|e| e.to_string()),
        _ => Err(format!("not parsed as \\copy: {}", line)),
    })
}

const SCHEMA: &str = "(id INTEGER, s VARCHAR(60), n INTEGER, t VARCHAR(60))";

fn setup(records: &[Rec]) -> SqlExecutor {
    let mut x = SqlExecutor::new(None).expect("executor");
    x.execute(&format!("CREATE TABLE src {}", SCHEMA)).expect("create src");
    x.execute(&format!("CREATE TABLE dst {}", SCHEMA)).expect("create dst");
    x.execute("CREATE TABLE other (k INTEGER, v VARCHAR(20))").expect("create other");
    x.execute("INSERT INTO other VALUES (1, 'canary')").expect("canary");
    let tb = x.verif_db().get_table_mut("SRC").expect("src table");
    for (id, s, t, n) in records {
        let sv = |v: &Option<String>| v.clone().map_or(SqlValue::Null, SqlValue::Varchar);
        tb.insert(vibesql_storage::Row::new(vec![SqlValue::Integer(*id), sv(s), n.map_or(SqlValue::Null, SqlValue::Integer), sv(t)])).expect("insert src");
    }
    x
}

fn first_diff(got: &[Rec], want: &[Rec]) -> (String, serde_json::Value) {
    // classify by the first expected record that is missing or altered
    for w in want {
        if !got.contains(w) {
            let same_id: Vec<&Rec> = got.iter().filter(|g| g.0 == w.0).collect();
            let cls = if let Some(g) = same_id.first() {
                if g.1 != w.1 {
                    class_of(&w.1)
                } else if g.2 != w.2 {
                    class_of(&w.2)
                } else {
                    "integer-column"
                }
            } else {
                // the whole record is missing: blame its most hostile field
                let (a, b) = (class_of(&w.1), class_of(&w.2));
                if a != "plain" && a != "other" { a } else { b }
            };
            return (cls.to_string(), json!({"expected_record": format!("{:?}", w), "rows_with_that_id": format!("{:?}", same_id), "rows_after": got.len(), "records": want.len()}));
        }
    }
    ("extra-rows".to_string(), json!({"rows_after": got.len(), "records": want.len(), "first_extra": format!("{:?}", got.iter().find(|g| !want.contains(g)))}))
}

pub fn run(ctx: &mut Ctx) {
    let total = ctx.n(600, 30_000);
    let base = std::env::var("VV_RUN_TMP").unwrap_or_else(|_| "/tmp".to_string());
    let dir = std::path::PathBuf::from(&base).join(format!("c31-{}-{}", std::process::id(), ctx.seed));
    std::fs::create_dir_all(&dir).expect("scratch dir");
    for case in ctx.my_cases(total) {
        ctx.begin_case(case);
        let mut rng = ctx.rng(case);
        let fmt = if rng.chance(1, 2) { "csv" } else { "json" };
        let hostile_pct = *rng.pick(&[0u64, 10, 40, 100]);
        let nrec = rng.range(1, 8) as usize;
        let recs = gen_records(&mut rng, nrec, hostile_pct);
        let path = dir.join(format!("f{}.{}", case, fmt));
        let p = path.to_string_lossy().to_string();
        let mut x = setup(&recs);
        let classes: Vec<&str> = {
            let mut c: Vec<&str> = recs.iter().flat_map(|r| [class_of(&r.1), class_of(&r.2)]).collect();
            c.sort();
            c.dedup();
            c
        };
        let family = rng.below(3);
        let fail = |ctx: &mut Ctx, sig: String, extra: serde_json::Value, file: Option<String>| {
            ctx.violation(case, sig, json!({"format": fmt, "records": recs.iter().map(|r| format!("{:?}", r)).collect::<Vec<_>>(), "detail": extra, "file": file}));
        };
        let other_before = table_names(&mut x);
        let mut want: Vec<Rec> = recs.clone();
        want.sort();
        let src_want = want.clone();
        let label;
        let mut file_text: Option<String> = None;
        let import_result;
        if family == 0 {
            // (A) round trip through the CLI's own export
            label = format!("round-trip-{}", fmt);
            match copy(&mut x, &format!("\\copy src TO '{}'", p)) {
                Err(pn) => {
                    fail(ctx, format!("panic:export-{}|{}", fmt, panic_class(&pn)), json!(pn), None);
                    continue;
                }
                Ok(Err(e)) => {
                    fail(ctx, format!("export-rejected:{}", fmt), json!(e), None);
                    continue;
                }
                Ok(Ok(())) => {}
            }
            file_text = std::fs::read_to_string(&path).ok();
            import_result = copy(&mut x, &format!("\\copy dst FROM '{}'", p));
        } else {
            // (B) import of a file written by the harness
            label = format!("import-{}", fmt);
            let text = if fmt == "csv" {
                let mut cols = vec!["id", "s", "n", "t"];
                let shuffled = family == 2 && rng.chance(1, 2);
                if shuffled {
                    cols = vec!["n", "t", "id", "s"];
                }
                let mut out = cols.join(",");
                out.push('\n');
                for r in &recs {
                    let f = |c: &str| match c {
                        "id" => r.0.to_string(),
                        "s" => r.1.clone().map_or(String::new(), |v| csv_field(&v)),
                        "t" => r.2.clone().map_or(String::new(), |v| csv_field(&v)),
                        _ => r.3.map_or(String::new(), |v| v.to_string()),
                    };
                    out.push_str(&cols.iter().map(|c| f(c)).collect::<Vec<_>>().join(","));
                    out.push('\n');
                }
                // an empty unquoted CSV field has no agreed meaning (NULL or ''): accept both
                out
            } else {
                // some records leave out one of the text keys (the column then stays NULL): the key
                // sets differ from record to record, also between records with equally many keys
                let omit: Vec<u8> = recs.iter().map(|_| if family == 1 && rng.chance(1, 3) { 1 + rng.below(2) as u8 } else { 0 }).collect();
                for (r, o) in want.iter_mut().zip(omit.iter()) {
                    // (want is sorted by id like recs, ids are 1..=n)
                    match o {
                        1 => r.1 = None,
                        2 => r.2 = None,
                        _ => {}
                    }
                }
                let arr: Vec<serde_json::Value> = recs
                    .iter()
                    .enumerate()
                    .map(|(i, r)| {
                        let mut m = serde_json::Map::new();
                        m.insert("id".into(), json!(r.0));
                        if omit[i] != 1 {
                            m.insert("s".into(), r.1.clone().map_or(serde_json::Value::Null, |v| json!(v)));
                        }
                        if omit[i] != 2 {
                            m.insert("t".into(), r.2.clone().map_or(serde_json::Value::Null, |v| json!(v)));
                        }
                        m.insert("n".into(), r.3.map_or(serde_json::Value::Null, |v| json!(v)));
                        if family == 2 && i > 0 && rng.chance(1, 3) {
                            // a hostile key in a later object (only the first object's keys are validated)
                            m.insert(rng.pick(&["s) VALUES (1); DROP TABLE other; --", "v) SELECT 1; --", "nosuch"]).to_string(), json!("x"));
                        }
                        serde_json::Value::Object(m)
                    })
                    .collect();
                serde_json::to_string_pretty(&arr).unwrap()
            };
            std::fs::write(&path, &text).expect("write import file");
            file_text = Some(text);
            import_result = copy(&mut x, &format!("\\copy dst FROM '{}'", p));
        }
        ctx.eval();
        let _ = std::fs::remove_file(&path);
        let hostile_keys = file_text.as_deref().map_or(false, |t| t.contains("DROP TABLE other; --\"") || t.contains("\"nosuch\"") || t.contains("SELECT 1; --\""));
        if let Err(pn) = &import_result {
            fail(ctx, format!("panic:{}|{}", label, panic_class(pn)), json!(pn), file_text.clone());
            continue;
        }
        // (C) nothing else changed
        if table_names(&mut x) != other_before {
            fail(ctx, format!("{}:table-list-changed", label), json!({"before": other_before, "after": table_names(&mut x)}), file_text.clone());
            continue;
        }
        let canary_ok = x.verif_db().get_table("OTHER").map_or(false, |t| t.scan().len() == 1);
        if !canary_ok {
            fail(ctx, format!("{}:other-table-changed", label), json!("canary row missing or duplicated"), file_text.clone());
            continue;
        }
        if read_table(&mut x, "SRC").as_ref() != Some(&src_want) {
            fail(ctx, format!("{}:source-table-changed", label), json!(null), file_text.clone());
            continue;
        }
        let got = read_table(&mut x, "DST").unwrap_or_default();
        // the empty CSV field: NULL and '' are both accepted readings
        let matches = |g: &[Rec], w: &[Rec]| -> bool {
            if g.len() != w.len() {
                return false;
            }
            g.iter().zip(w.iter()).all(|(a, b)| {
                let f = |x: &Option<String>, y: &Option<String>| x == y || (fmt == "csv" && x.clone().unwrap_or_default().is_empty() && y.clone().unwrap_or_default().is_empty());
                a.0 == b.0 && f(&a.1, &b.1) && f(&a.2, &b.2) && a.3 == b.3
            })
        };
        if hostile_keys {
            // malformed file: rejecting is fine, but whatever was inserted must be records of the file
            let bad = got.iter().find(|g| !want.iter().any(|w| matches(std::slice::from_ref(g), std::slice::from_ref(w))));
            if let Some(b) = bad {
                fail(ctx, format!("{}:foreign-row-inserted|hostile-key", label), json!(format!("{:?}", b)), file_text.clone());
                continue;
            }
            ctx.nontrivial(format!("{}|hostile-key|{}", label, if import_result.as_ref().unwrap().is_err() { "rejected" } else { "accepted" }));
            continue;
        }
        if !matches(&got, &want) {
            let (cls, detail) = first_diff(&got, &want);
            let outcome = match import_result.as_ref().unwrap() {
                Ok(()) => "import-ok".to_string(),
                Err(e) => format!("import-error: {}", e),
            };
            fail(ctx, format!("{}:records-not-reproduced|{}", label, cls), json!({"diff": detail, "import": outcome}), file_text.clone());
            continue;
        }
        for c in &classes {
            ctx.nontrivial(format!("{}|{}", label, c));
        }
        ctx.count("records-transferred", recs.len() as u64);
        ctx.sample(|| json!({"label": label, "classes": classes, "file": file_text}));
    }
    let _ = std::fs::remove_dir_all(&dir);
}
