//! C06 — predicates partition rows consistently under three-valued logic (engine against itself).

use serde_json::json;

use crate::core::canon::{multiset_eq, row_cmp, show_rows, CRow, Canon};
use crate::core::ctx::Ctx;
use crate::core::rng::Rng;
use crate::core::session::Session;
use crate::gen::ast::*;
use crate::gen::build::*;
use crate::gen::dual::{load_vibe, tables_json};

fn and(a: Option<P>, b: P) -> P {
    match a {
        Some(x) => P::And(Box::new(x), Box::new(b)),
        None => b,
    }
}

fn dedupe(mut rows: Vec<CRow>) -> Vec<CRow> {
    rows.sort_by(row_cmp);
    rows.dedup_by(|a, b| crate::core::canon::rows_eq(a, b, 0.0));
    rows
}

/// Returns Err(reason) when some query errors (undefined partition), Ok(Some(kind)) on violation.
fn check_form(s: &mut Session, base: &Q, p: &P, form: &str) -> Result<Option<(String, serde_json::Value)>, String> {
    let variants = [p.clone(), P::Not(Box::new(p.clone())), P::IsPNull(Box::new(p.clone()))];
    let run = |s: &mut Session, q: &Q| s.query(&q.render(Dialect::Vibe));
    let whole = run(s, base)?;
    let mut parts: Vec<Vec<CRow>> = Vec::new();
    let mut sqls = vec![base.render(Dialect::Vibe)];
    for v in variants.iter() {
        let mut q = base.clone();
        q.where_ = Some(and(base.where_.clone(), v.clone()));
        sqls.push(q.render(Dialect::Vibe));
        parts.push(run(s, &q)?);
    }
    let detail = |whole: &Vec<CRow>, combined: &Vec<CRow>| json!({"queries": sqls, "whole": show_rows(whole, 16), "combined_parts": show_rows(combined, 16), "part_sizes": parts.iter().map(|p| p.len()).collect::<Vec<_>>()});
    match form {
        "plain" => {
            let combined: Vec<CRow> = parts.iter().flatten().cloned().collect();
            if !multiset_eq(&whole, &combined, 1e-9) {
                let kind = if combined.len() < whole.len() { "rows-lost" } else if combined.len() > whole.len() { "rows-duplicated" } else { "rows-differ" };
                return Ok(Some((kind.into(), detail(&whole, &combined))));
            }
        }
        "distinct" => {
            let combined = dedupe(parts.iter().flatten().cloned().collect());
            let w = dedupe(whole.clone());
            if w.len() != whole.len() {
                return Ok(Some(("distinct-returned-duplicates".into(), detail(&whole, &combined))));
            }
            if !multiset_eq(&w, &combined, 1e-9) {
                return Ok(Some(("rows-differ".into(), detail(&whole, &combined))));
            }
        }
        "aggregate" | "group" => {
            // items: [group keys..., COUNT(*), SUM(x), MIN(x), MAX(x)] ; merge partial aggregates per key
            let nk = base.group_by.len();
            let mut merged: Vec<CRow> = Vec::new();
            for row in parts.iter().flatten() {
                // an aggregate query without GROUP BY yields one row even for an empty part: COUNT 0 rows carry no data
                if let Some(m) = merged.iter_mut().find(|m| crate::core::canon::rows_eq(&m[..nk].to_vec(), &row[..nk].to_vec(), 0.0)) {
                    let add = |a: &Canon, b: &Canon| match (a.as_f64(), b.as_f64()) {
                        (Some(x), Some(y)) => Canon::num(x + y),
                        (None, _) => b.clone(),
                        (_, None) => a.clone(),
                    };
                    let pick = |a: &Canon, b: &Canon, min: bool| match (a.is_null(), b.is_null()) {
                        (true, _) => b.clone(),
                        (_, true) => a.clone(),
                        _ => {
                            let lt = a.total_cmp(b) == std::cmp::Ordering::Less;
                            if lt == min { a.clone() } else { b.clone() }
                        }
                    };
                    m[nk] = add(&m[nk], &row[nk]);
                    m[nk + 1] = add(&m[nk + 1], &row[nk + 1]);
                    m[nk + 2] = pick(&m[nk + 2], &row[nk + 2], true);
                    m[nk + 3] = pick(&m[nk + 3], &row[nk + 3], false);
                } else {
                    merged.push(row.clone());
                }
            }
            // groups that exist in the whole only with COUNT 0 cannot occur; without GROUP BY the single row is always there
            let whole_cmp: Vec<CRow> = whole.clone();
            let merged_cmp: Vec<CRow> = if nk == 0 { merged } else { merged.into_iter().filter(|m| m[nk].as_f64().unwrap_or(0.0) != 0.0).collect() };
            if !multiset_eq(&whole_cmp, &merged_cmp, 1e-9) {
                return Ok(Some(("aggregates-do-not-add-up".into(), detail(&whole, &merged_cmp))));
            }
        }
        _ => {}
    }
    Ok(None)
}

/// number of rows passing WHERE p == number of TRUE values of `SELECT (p)`
fn check_count(s: &mut Session, base: &Q, p: &P) -> Result<Option<(String, serde_json::Value)>, String> {
    let mut q1 = base.clone();
    q1.items = vec![(E::Agg("COUNT", false, None), String::new())];
    q1.where_ = Some(and(base.where_.clone(), p.clone()));
    q1.distinct = false;
    let mut q2 = base.clone();
    q2.items = vec![(E::Pred(Box::new(p.clone())), String::new())];
    q2.distinct = false;
    let (s1, s2) = (q1.render(Dialect::Vibe), q2.render(Dialect::Vibe));
    let c = s.query(&s1)?;
    let vals = s.query(&s2)?;
    let trues = vals.iter().filter(|r| matches!(r[0], Canon::Bool(true)) || matches!(r[0], Canon::Int(1))).count() as i128;
    match c.first().and_then(|r| r.first()) {
        Some(Canon::Int(n)) if *n == trues => Ok(None),
        other => Ok(Some(("count-where-differs-from-true-count".into(), json!({"count_sql": s1, "values_sql": s2, "count": format!("{:?}", other), "true_values": trues, "values": show_rows(&vals, 16)})))),
    }
}

pub fn run(ctx: &mut Ctx) {
    let total = ctx.n(1200, 100_000);
    for case in ctx.my_cases(total) {
        ctx.begin_case(case);
        let mut rng = ctx.rng(case);
        let tables = gen_tables(&mut rng, 2, 7);
        let mut s = load_vibe(&tables);
        s.record = false;
        // indexes bring the pushdown / index-scan paths into play
        let mut indexes: Vec<String> = Vec::new();
        for t in &tables {
            if rng.chance(1, 2) {
                indexes.push(format!("CREATE INDEX ix_{}_{} ON {} ({})", t.name, "a", t.name, "a"));
            }
            if rng.chance(1, 4) {
                indexes.push(format!("CREATE INDEX ix_{}_{} ON {} ({})", t.name, "c", t.name, "c"));
            }
        }
        for ix in &indexes {
            let _ = s.exec(ix);
        }
        for qi in 0..8 {
            let form = *rng.pick(&["plain", "plain", "distinct", "aggregate", "group", "count"]);
            let (base, p) = gen_base_and_pred(&mut rng, &tables, form);
            ctx.eval();
            let res = if form == "count" { check_count(&mut s, &base, &p) } else { check_form(&mut s, &base, &p, form) };
            match res {
                Err(e) => {
                    if e.starts_with("PANIC") {
                        ctx.violation(case, format!("panic:{}", crate::core::util::panic_class(&e)), json!({"base": base.render(Dialect::Vibe), "p": p.render(Dialect::Vibe), "tables": tables_json(&tables)}));
                    } else {
                        ctx.count("skipped_query_error", 1);
                        if ctx.notes.len() < 3 {
                            ctx.notes.push(format!("example skip: {} / {} -> {}", crate::core::util::trunc(&base.render(Dialect::Vibe), 90), crate::core::util::trunc(&p.render(Dialect::Vibe), 60), crate::core::util::trunc(&e, 80)));
                        }
                    }
                }
                Ok(None) => {
                    let mut t = std::collections::BTreeSet::new();
                    p.tags(&mut t);
                    ctx.nontrivial(format!("{}|{}|{}", form, if base.from.len() > 1 || matches!(base.from[0], From::Join(..)) { "join" } else { "single" }, t.into_iter().collect::<Vec<_>>().join(",")));
                    if qi == 0 {
                        ctx.sample(|| json!({"form": form, "base": base.render(Dialect::Vibe), "p": p.render(Dialect::Vibe)}));
                    }
                }
                Ok(Some((kind, detail))) => {
                    // shrink the predicate
                    let mut pp = p.clone();
                    let mut evals = 0;
                    'outer: loop {
                        for cand in pp.shrinks() {
                            if evals > 80 {
                                break 'outer;
                            }
                            evals += 1;
                            let r = if form == "count" { check_count(&mut s, &base, &cand) } else { check_form(&mut s, &base, &cand, form) };
                            if matches!(&r, Ok(Some((k, _))) if *k == kind) {
                                pp = cand;
                                continue 'outer;
                            }
                        }
                        break;
                    }
                    let mut t = std::collections::BTreeSet::new();
                    pp.tags(&mut t);
                    let d2 = (if form == "count" { check_count(&mut s, &base, &pp) } else { check_form(&mut s, &base, &pp, form) }).ok().flatten().map(|x| x.1).unwrap_or(detail);
                    let joined = base.from.len() > 1 || matches!(base.from[0], From::Join(..));
                    ctx.violation(case, format!("{}:{}|{}|{}", form, kind, if joined { "join" } else { "single" }, t.into_iter().collect::<Vec<_>>().join(",")), json!({"base": base.render(Dialect::Vibe), "p": pp.render(Dialect::Vibe), "original_p": p.render(Dialect::Vibe), "tables": tables_json(&tables), "indexes": indexes, "detail": d2}));
                }
            }
        }
    }
}

fn gen_base_and_pred(rng: &mut Rng, tables: &[Table], form: &str) -> (Q, P) {
    let mut g = Gen { rng, tables, sub_budget: 0, allow_like: true };
    let (from, sc) = g.from_clause(2);
    let w = if g.rng.chance(1, 3) { Some(g.pred(&sc, 1)) } else { None };
    let simple = (form == "aggregate" || form == "count") && g.rng.chance(1, 2);
    let p = if simple {
        // the shapes the columnar / pushdown fast paths accept: col op literal, col BETWEEN lit AND lit
        let c = sc.pick(g.rng, Ty::Int).unwrap();
        let lit = |g: &mut Gen| if g.rng.chance(1, 5) { E::Lit(V::Null) } else { int(g.rng.range(-3, 6)) };
        if g.rng.chance(1, 3) {
            P::Between(c, lit(&mut g), lit(&mut g), false)
        } else {
            let op = g.cmp_op();
            P::Cmp(op, c, lit(&mut g))
        }
    } else {
        g.pred(&sc, 2)
    };
    let x = sc.pick(g.rng, Ty::Int).unwrap();
    let mut q = Q { from, where_: w, ..Default::default() };
    match form {
        "aggregate" | "group" => {
            if form == "group" {
                let k = if g.rng.chance(1, 3) { sc.pick(g.rng, Ty::Text).unwrap() } else { sc.pick(g.rng, Ty::Int).unwrap() };
                q.group_by.push(k.clone());
                q.items.push((k, String::new()));
            }
            q.items.push((E::Agg("COUNT", false, None), String::new()));
            q.items.push((E::Agg("SUM", false, Some(Box::new(x.clone()))), String::new()));
            q.items.push((E::Agg("MIN", false, Some(Box::new(x.clone()))), String::new()));
            q.items.push((E::Agg("MAX", false, Some(Box::new(x))), String::new()));
        }
        _ => {
            for _ in 0..g.rng.range(1, 3) {
                let e = if g.rng.chance(1, 4) { g.text_expr(&sc) } else { g.int_expr(&sc, 1) };
                q.items.push((e, String::new()));
            }
            q.distinct = form == "distinct";
        }
    }
    (q, p)
}
