//! C24 — statement execution never panics and never silently wraps numbers.
//! Statements with extreme literals, unchecked-arithmetic shapes, hostile string-function
//! arguments, inverted index ranges, missing objects and type mismatches run under catch_unwind;
//! integer results are compared with an exact (i128) model; a sanity query follows every statement.

use serde_json::json;

use crate::core::canon::Canon;
use crate::core::ctx::Ctx;
use crate::core::rng::Rng;
use crate::core::session::{Outcome, Session};
use crate::core::util::{panic_class, sql_quote};

const I64MAX: i128 = i64::MAX as i128;
const I64MIN: i128 = i64::MIN as i128;

const BIG: [i128; 16] = [
    0,
    1,
    2,
    -1,
    -2,
    7,
    1000,
    2147483647,
    -2147483648,
    3037000500,
    4611686018427387904,
    -4611686018427387904,
    9223372036854775806,
    9223372036854775807,
    -9223372036854775807,
    -9223372036854775808,
];

/// integer expression with an exact model
#[derive(Clone, Debug)]
enum Ex {
    Lit(i128),
    ColA,
    ColB,
    Add(Box<Ex>, Box<Ex>),
    Sub(Box<Ex>, Box<Ex>),
    Mul(Box<Ex>, Box<Ex>),
    Neg(Box<Ex>),
    Abs(Box<Ex>),
}

fn lit_sql(v: i128) -> String {
    // the literal i64::MIN lexes as a float; write it as an expression over representable literals
    if v == I64MIN {
        "(-9223372036854775807 - 1)".to_string()
    } else if v < 0 {
        format!("({})", v)
    } else {
        v.to_string()
    }
}

impl Ex {
    fn sql(&self) -> String {
        match self {
            Ex::Lit(v) => lit_sql(*v),
            Ex::ColA => "a".into(),
            Ex::ColB => "b".into(),
            Ex::Add(l, r) => format!("({} + {})", l.sql(), r.sql()),
            Ex::Sub(l, r) => format!("({} - {})", l.sql(), r.sql()),
            Ex::Mul(l, r) => format!("({} * {})", l.sql(), r.sql()),
            Ex::Neg(e) => format!("(-{})", e.sql()),
            Ex::Abs(e) => format!("ABS({})", e.sql()),
        }
    }
    /// exact value; None = NULL; Err = an intermediate left the i64 range (the engine must not
    /// return an integer then, unless it happens to be the exact final value)
    fn eval(&self, a: Option<i128>, b: Option<i128>) -> Option<(i128, bool)> {
        let bin = |l: &Ex, r: &Ex, f: fn(i128, i128) -> Option<i128>| -> Option<(i128, bool)> {
            let (x, ox) = l.eval(a, b)?;
            let (y, oy) = r.eval(a, b)?;
            let v = f(x, y)?;
            Some((v, ox || oy || !(I64MIN..=I64MAX).contains(&v)))
        };
        match self {
            Ex::Lit(v) => Some((*v, false)),
            Ex::ColA => a.map(|v| (v, false)),
            Ex::ColB => b.map(|v| (v, false)),
            Ex::Add(l, r) => bin(l, r, |x, y| x.checked_add(y)),
            Ex::Sub(l, r) => bin(l, r, |x, y| x.checked_sub(y)),
            Ex::Mul(l, r) => bin(l, r, |x, y| x.checked_mul(y)),
            Ex::Neg(e) => {
                let (x, o) = e.eval(a, b)?;
                Some((-x, o || !(I64MIN..=I64MAX).contains(&-x)))
            }
            Ex::Abs(e) => {
                let (x, o) = e.eval(a, b)?;
                Some((x.abs(), o || !(I64MIN..=I64MAX).contains(&x.abs())))
            }
        }
    }
    fn ops(&self, out: &mut Vec<&'static str>) {
        match self {
            Ex::Add(l, r) => {
                out.push("add");
                l.ops(out);
                r.ops(out);
            }
            Ex::Sub(l, r) => {
                out.push("sub");
                l.ops(out);
                r.ops(out);
            }
            Ex::Mul(l, r) => {
                out.push("mul");
                l.ops(out);
                r.ops(out);
            }
            Ex::Neg(e) => {
                out.push("neg");
                e.ops(out);
            }
            Ex::Abs(e) => {
                out.push("abs");
                e.ops(out);
            }
            _ => {}
        }
    }
}

fn gen_ex(rng: &mut Rng, depth: u32, cols: bool) -> Ex {
    if depth == 0 || rng.chance(1, 4) {
        return match rng.below(if cols { 6 } else { 4 }) {
            4 => Ex::ColA,
            5 => Ex::ColB,
            0 => Ex::Lit(rng.range(-5, 5) as i128),
            _ => Ex::Lit(*rng.pick(&BIG)),
        };
    }
    let l = Box::new(gen_ex(rng, depth - 1, cols));
    let r = Box::new(gen_ex(rng, depth - 1, cols));
    match rng.below(8) {
        0 | 1 => Ex::Add(l, r),
        2 | 3 => Ex::Sub(l, r),
        4 | 5 => Ex::Mul(l, r),
        6 => Ex::Neg(l),
        _ => Ex::Abs(l),
    }
}

const STRS: [&str; 9] = ["", "a", "hello", "héllo", "日本語テキスト", "🙂🙃", "a'b", "ß", "x y z"];

struct Row {
    id: i64,
    a: Option<i128>,
    b: Option<i128>,
    s: Option<&'static str>,
}

fn int_arg(rng: &mut Rng) -> String {
    match rng.below(6) {
        0 => rng.range(-3, 8).to_string(),
        1 => lit_sql(*rng.pick(&BIG)),
        2 => "NULL".into(),
        3 => "b".into(),
        4 => "a".into(),
        _ => rng.range(0, 3).to_string(),
    }
}

fn str_arg(rng: &mut Rng) -> String {
    if rng.chance(1, 3) {
        "s".into()
    } else {
        sql_quote(*rng.pick(&STRS))
    }
}

/// (sql, family) for the "no panic" families; results are not modelled
fn hostile_stmt(rng: &mut Rng) -> (String, &'static str) {
    match rng.below(26) {
        0 => (format!("SELECT id, SUBSTRING({}, {}, {}) FROM t", str_arg(rng), int_arg(rng), int_arg(rng)), "substring"),
        1 => (format!("SELECT id, SUBSTRING({} FROM {} FOR {}) FROM t", str_arg(rng), int_arg(rng), int_arg(rng)), "substring-from-for"),
        2 => (format!("SELECT id, SUBSTRING({} FROM {}) FROM t", str_arg(rng), int_arg(rng)), "substring-from"),
        3 => (format!("SELECT id, LEFT({}, {}), RIGHT({}, {}) FROM t", str_arg(rng), int_arg(rng), str_arg(rng), int_arg(rng)), "left-right"),
        4 => (format!("SELECT id, POSITION({} IN {}), CHAR_LENGTH({}), UPPER({}), LOWER({}) FROM t", str_arg(rng), str_arg(rng), str_arg(rng), str_arg(rng), str_arg(rng)), "string-misc"),
        5 => (format!("SELECT id, TRIM({}), REPLACE({}, {}, {}) FROM t", str_arg(rng), str_arg(rng), str_arg(rng), str_arg(rng)), "trim-replace"),
        6 => (format!("SELECT id FROM t WHERE s LIKE {}", sql_quote(*rng.pick(&["%", "_", "%é%", "h_llo", "%%", "\\", "%\\", "日%", "_🙃", "[a"]))), "like"),
        7 => (format!("SELECT id, {} || {} FROM t", str_arg(rng), str_arg(rng)), "concat"),
        8 => (format!("SELECT id, a / {}, b / {} FROM t", int_arg(rng), int_arg(rng)), "division"),
        9 => (format!("SELECT {} / {}", lit_sql(*rng.pick(&BIG)), lit_sql(*rng.pick(&[0, -1, 1, 2, 7]))), "division-literal"),
        10 => (format!("SELECT MOD({}, {}), MOD(a, {}) FROM t", lit_sql(*rng.pick(&BIG)), lit_sql(*rng.pick(&[0, -1, 1, 2, 7])), int_arg(rng)), "mod"),
        11 => (format!("SELECT ROUND({}, {}), ROUND(a, {}) FROM t", rng.pick(&["2.5", "1e300", "-0.5", "123456.789"]), int_arg(rng), int_arg(rng)), "round"),
        12 => (format!("SELECT POWER({}, {}), SQRT({}), ABS({}) FROM t", int_arg(rng), int_arg(rng), int_arg(rng), int_arg(rng)), "power-sqrt"),
        13 => (format!("SELECT CAST({} AS {}) FROM t", rng.pick(&["a", "b", "s", "'abc'", "'12'", "1e300", "-1e300", "9223372036854775807", "'9999999999999999999999'", "NULL", "''"]), rng.pick(&["INTEGER", "SMALLINT", "BIGINT", "VARCHAR(2)", "DOUBLE PRECISION", "DATE", "BOOLEAN", "DECIMAL(5,2)"])), "cast"),
        14 => {
            let (lo, hi) = (int_arg(rng), int_arg(rng));
            (format!("SELECT id FROM t WHERE {} BETWEEN {} AND {}", rng.pick(&["a", "b"]), lo, hi), "between")
        }
        15 => {
            let c = *rng.pick(&["a", "b", "s"]);
            let k = if c == "s" { sql_quote(*rng.pick(&STRS)) } else { lit_sql(*rng.pick(&BIG)) };
            let k2 = if c == "s" { sql_quote(*rng.pick(&STRS)) } else { lit_sql(*rng.pick(&BIG)) };
            (format!("SELECT id FROM t WHERE {} {} {} AND {} {} {}", c, rng.pick(&[">", ">=", "<", "<=", "="]), k, c, rng.pick(&[">", ">=", "<", "<=", "="]), k2), "index-range")
        }
        16 => (format!("SELECT {} FROM t ORDER BY id LIMIT {} OFFSET {}", rng.pick(&["id", "DISTINCT id", "id"]), rng.pick(&["0", "1", "9223372036854775807", "3", "18446744073709551615", "18446744073709551614"]), rng.pick(&["0", "1", "2", "9223372036854775807", "18446744073709551615", "100"])), "limit-offset"),
        17 => (format!("SELECT id FROM {}", rng.pick(&["nosuch", "t.x", "public.t", "nosuch.t"])), "missing-table"),
        18 => (format!("SELECT {} FROM t", rng.pick(&["nosuch", "t.nosuch", "x.a", "a.b.c.d", "*, nosuch"])), "missing-column"),
        19 => (format!("INSERT INTO t VALUES ({})", rng.pick(&["1", "1, 2", "900, 1, 2, 'x', 5", "'x', 'y', 'z', 1", "901, 'abc', 1, 'x'", "NULL, 1, 1, 'x'"])), "insert-bad-arity-or-type"),
        20 => (format!("INSERT INTO t (id, nosuch) VALUES (950, 1)"), "insert-missing-column"),
        21 => (format!("SELECT {} + {} FROM t", rng.pick(&["s", "'abc'", "a", "TRUE", "DATE '2024-01-01'"]), rng.pick(&["1", "s", "'x'", "NULL", "INTERVAL '1' DAY", "b"])), "type-mismatch"),
        22 => (format!("SELECT id FROM t WHERE {} IN ({})", rng.pick(&["a", "s", "b"]), rng.pick(&["1, 'x'", "NULL", "SELECT s FROM t", "SELECT id, a FROM t", "9223372036854775807, -1"])), "in-list"),
        23 => (format!("SELECT {}({}) FROM t", rng.pick(&["SUM", "AVG", "MIN", "MAX", "COUNT"]), rng.pick(&["s", "a", "b", "a * a", "a + b", "*", "DISTINCT a", "nosuch"])), "aggregate-odd-argument"),
        24 => (format!("SELECT {}", rng.pick(&["1e308 * 10", "-1e308 * 10", "0.0 / 0.0", "1e308 + 1e308", "99999999999999999999999999", "-99999999999999999999999999 - 1", "0.1 + 0.2", "1 / 0.0"])), "float-extremes"),
        _ => (format!("UPDATE t SET {} = {} WHERE id = {}", rng.pick(&["a", "b", "s", "nosuch"]), rng.pick(&["'abc'", "NULL", "a * a", "s", "9223372036854775807 + b", "1 / 0", "nosuch"]), rng.range(1, 6)), "update-odd-value"),
    }
}

fn canon_int(c: &Canon) -> Option<i128> {
    if let Canon::Int(i) = c {
        Some(*i)
    } else {
        None
    }
}

/// compare one engine value with the exact model value
fn judge(engine: &Canon, exact: Option<(i128, bool)>) -> Result<(), String> {
    match (engine, exact) {
        (Canon::Null, _) => Ok(()), // NULL for overflow is allowed ("error/NULL as documented")
        (_, None) => Err(format!("model says NULL, engine says {:?}", engine)),
        (Canon::Int(v), Some((x, _))) => {
            if *v == x {
                Ok(())
            } else {
                Err(format!("engine {} exact {}", v, x))
            }
        }
        (Canon::Num(f), Some((x, _))) => {
            // promoted to floating point: must approximate the exact value
            let xf = x as f64;
            if (f - xf).abs() <= xf.abs() * 1e-9 + 1e-9 {
                Ok(())
            } else {
                Err(format!("engine {} exact {}", f, x))
            }
        }
        (o, Some((x, _))) => Err(format!("engine {:?} exact {}", o, x)),
    }
}

pub fn run(ctx: &mut Ctx) {
    let total = ctx.n(600, 20_000);
    for case in ctx.my_cases(total) {
        ctx.begin_case(case);
        let mut rng = ctx.rng(case);
        let mut s = Session::new();
        s.must("CREATE TABLE t (id INTEGER PRIMARY KEY, a BIGINT, b INTEGER, s VARCHAR(20))");
        let indexed = rng.chance(2, 3);
        if indexed {
            s.must("CREATE INDEX ix_a ON t (a)");
            s.must("CREATE INDEX ix_b ON t (b)");
            s.must("CREATE INDEX ix_s ON t (s)");
        }
        let mut rows: Vec<Row> = vec![];
        let n = rng.range(3, 9);
        for id in 1..=n {
            let a = if rng.chance(1, 8) { None } else { Some(*rng.pick(&BIG)) };
            let b = if rng.chance(1, 8) { None } else { Some(*rng.pick(&[0i128, 1, -1, 5, 1000, 2147483647, -2147483648])) };
            let st = if rng.chance(1, 8) { None } else { Some(*rng.pick(&STRS)) };
            s.must(&format!(
                "INSERT INTO t SELECT {}, {}, {}, {}",
                id,
                a.map_or("NULL".to_string(), lit_sql),
                b.map_or("NULL".to_string(), lit_sql),
                st.map_or("NULL".to_string(), sql_quote)
            ));
            rows.push(Row { id, a, b, s: st });
        }
        let nrows = rows.len();
        let fail = |ctx: &mut Ctx, s: &Session, sig: String, sql: &str, extra: serde_json::Value| {
            ctx.violation(case, sig, json!({"statement": sql, "indexed": indexed, "detail": extra, "history": s.history_json()}));
        };
        let mut broken = false;
        for _ in 0..rng.range(8, 24) {
            let fam: &'static str;
            let sql: String;
            // (kind, expectations)
            enum Model {
                None,
                Scalar(Option<(i128, bool)>),
                PerRow(Vec<(i64, Option<(i128, bool)>)>),
                Sums { sum_a: Option<i128>, sum_b: Option<i128>, count: i128, min_a: Option<i128>, max_a: Option<i128> },
            }
            let model: Model;
            let mut ops: Vec<&'static str> = vec![];
            match rng.below(10) {
                0 | 1 => {
                    let e = gen_ex(&mut rng, 2, false);
                    e.ops(&mut ops);
                    sql = format!("SELECT {}", e.sql());
                    fam = "integer-expression";
                    model = Model::Scalar(e.eval(None, None));
                }
                2 | 3 => {
                    let e = gen_ex(&mut rng, 2, true);
                    e.ops(&mut ops);
                    sql = format!("SELECT id, {} FROM t", e.sql());
                    fam = "integer-expression-over-columns";
                    model = Model::PerRow(rows.iter().map(|r| (r.id, e.eval(r.a, r.b))).collect());
                }
                4 => {
                    let pred = *rng.pick(&["", " WHERE b >= 0", " WHERE a > 0", " WHERE id <= 4", " WHERE b < 100000 AND a < 0"]);
                    let keep = |r: &&Row| match pred {
                        " WHERE b >= 0" => r.b.map_or(false, |b| b >= 0),
                        " WHERE a > 0" => r.a.map_or(false, |a| a > 0),
                        " WHERE id <= 4" => r.id <= 4,
                        " WHERE b < 100000 AND a < 0" => r.b.map_or(false, |b| b < 100000) && r.a.map_or(false, |a| a < 0),
                        _ => true,
                    };
                    let sel: Vec<&Row> = rows.iter().filter(keep).collect();
                    let sum = |f: fn(&Row) -> Option<i128>| -> Option<i128> {
                        let v: Vec<i128> = sel.iter().filter_map(|r| f(r)).collect();
                        if v.is_empty() {
                            None
                        } else {
                            Some(v.iter().sum())
                        }
                    };
                    sql = format!("SELECT SUM(a), SUM(b), COUNT(*), MIN(a), MAX(a) FROM t{}", pred);
                    fam = "aggregate-sum";
                    ops.push("sum");
                    model = Model::Sums {
                        sum_a: sum(|r| r.a),
                        sum_b: sum(|r| r.b),
                        count: sel.len() as i128,
                        min_a: sel.iter().filter_map(|r| r.a).min(),
                        max_a: sel.iter().filter_map(|r| r.a).max(),
                    };
                }
                _ => {
                    let (q, f) = hostile_stmt(&mut rng);
                    sql = q;
                    fam = f;
                    model = Model::None;
                }
            }
            let out = s.exec(&sql);
            ctx.eval();
            if let Outcome::Panic(p) = &out {
                let cls = panic_class(p);
                // one signature per root cause: the arithmetic overflow panics carry the operator
                let sig = if cls.contains("overflow") { format!("panic:{}", cls) } else { format!("panic:{}|{}", fam, cls) };
                fail(ctx, &s, sig, &sql, json!(p));
                broken = true;
            } else {
                match (&model, &out) {
                    (Model::Scalar(x), Outcome::Rows(r)) => {
                        if let Some(v) = r.first().and_then(|row| row.first()) {
                            if let Err(e) = judge(v, *x) {
                                ops.sort();
                                ops.dedup();
                                fail(ctx, &s, format!("wrong-integer-result:{}|{}", fam, ops.join("+")), &sql, json!(e));
                                broken = true;
                            }
                        }
                    }
                    (Model::PerRow(exp), Outcome::Rows(r)) => {
                        for row in r {
                            let id = canon_int(&row[0]).unwrap_or(-1) as i64;
                            if let Some((_, x)) = exp.iter().find(|(i, _)| *i == id) {
                                if let Err(e) = judge(&row[1], *x) {
                                    ops.sort();
                                    ops.dedup();
                                    fail(ctx, &s, format!("wrong-integer-result:{}|{}", fam, ops.join("+")), &sql, json!({"id": id, "why": e}));
                                    broken = true;
                                    break;
                                }
                            }
                        }
                        if r.len() != exp.len() && !broken {
                            fail(ctx, &s, format!("wrong-row-count:{}", fam), &sql, json!({"rows": r.len(), "expected": exp.len()}));
                            broken = true;
                        }
                    }
                    (Model::Sums { sum_a, sum_b, count, min_a, max_a }, Outcome::Rows(r)) => {
                        if let Some(row) = r.first() {
                            let checks: [(&str, &Canon, Option<i128>); 5] = [("sum-a", &row[0], *sum_a), ("sum-b", &row[1], *sum_b), ("count", &row[2], Some(*count)), ("min-a", &row[3], *min_a), ("max-a", &row[4], *max_a)];
                            for (what, got, exp) in checks {
                                let res = match (got, exp) {
                                    (Canon::Null, None) => Ok(()),
                                    // NULL or error on overflow is fine, a wrong number is not
                                    (Canon::Null, Some(x)) if !(I64MIN..=I64MAX).contains(&x) => Ok(()),
                                    (Canon::Null, Some(x)) => Err(format!("engine NULL exact {}", x)),
                                    (g, e) => judge(g, e.map(|x| (x, false))),
                                };
                                if let Err(e) = res {
                                    fail(ctx, &s, format!("wrong-aggregate:{}", what), &sql, json!({"why": e, "columnar": s.hit("columnar")}));
                                    broken = true;
                                    break;
                                }
                            }
                        }
                    }
                    _ => {}
                }
            }
            ctx.nontrivial(format!("{}|{}", fam, match &out {
                Outcome::Rows(_) => "rows",
                Outcome::Err(_) => "error",
                Outcome::Panic(_) => "panic",
                _ => "ok",
            }));
            // the database stays usable and unchanged in size (UPDATEs keep the row count)
            let rec = s.record;
            s.record = false;
            let sane = s.query("SELECT COUNT(*) FROM t");
            s.record = rec;
            match sane {
                Ok(r) if r.first().and_then(|x| canon_int(&x[0])) == Some(nrows as i128) => {}
                other => {
                    fail(ctx, &s, format!("unusable-after:{}", fam), &sql, json!(format!("{:?}", other)));
                    broken = true;
                }
            }
            if broken {
                break;
            }
            if fam == "update-odd-value" {
                // contents may have changed: re-read the model columns
                let rec = s.record;
                s.record = false;
                if let Ok(r) = s.query("SELECT id, a, b FROM t") {
                    for row in r {
                        if let Some(m) = rows.iter_mut().find(|m| Some(m.id as i128) == canon_int(&row[0])) {
                            m.a = canon_int(&row[1]);
                            m.b = canon_int(&row[2]);
                        }
                    }
                }
                s.record = rec;
            }
        }
        ctx.sample(|| json!({"history": s.history_json()}));
        if broken {
            continue;
        }
        // large-table phase: more than one full batch of the columnar aggregate kernels, with
        // values whose partial sums leave the 64-bit range
        if case % 4 == 0 {
            let mut b = Session::new();
            b.record = false;
            b.must("CREATE TABLE big (id INTEGER PRIMARY KEY, v BIGINT, w INTEGER)");
            let n = rng.range(1030, 2300);
            let pool: [i128; 7] = [9007199254740992, 4611686018427387904, -4611686018427387904, 1152921504606846976, 3, -7, 2305843009213693952];
            let bias = rng.below(3);
            let mut vals: Vec<(Option<i128>, i128)> = vec![];
            let mut id = 0;
            while id < n {
                let mut rows = vec![];
                for _ in 0..200.min(n - id) {
                    id += 1;
                    let v = if rng.chance(1, 20) { None } else if bias == 0 { Some(pool[rng.usize(7)]) } else if bias == 1 { Some(pool[rng.usize(2)]) } else { Some(pool[3 + rng.usize(4)]) };
                    let w = rng.range(0, 3) as i128;
                    vals.push((v, w));
                    rows.push(format!("({}, {}, {})", id, v.map_or("NULL".to_string(), |x| x.to_string()), w));
                }
                // negative literals are not accepted in VALUES: insert through SELECT ... UNION ALL
                let sel: Vec<String> = rows.iter().map(|r| format!("SELECT {}", r.trim_matches(|c| c == '(' || c == ')'))).collect();
                b.must(&format!("INSERT INTO big {}", sel.join(" UNION ALL ")));
            }
            b.record = true;
            for (pred, keep) in [("", 9i128), (" WHERE w = 1", 1), (" WHERE w >= 1", -1)] {
                let sel: Vec<i128> = vals.iter().filter(|(_, w)| keep == 9 || (keep == 1 && *w == 1) || (keep == -1 && *w >= 1)).filter_map(|(v, _)| *v).collect();
                let exact: i128 = sel.iter().sum();
                // COUNT(*) keeps the statement on the columnar path (COUNT(col) does not)
                let sql = format!("SELECT SUM(v), COUNT(*), AVG(v) FROM big{}", pred);
                let out = b.exec(&sql);
                ctx.eval();
                match &out {
                    Outcome::Panic(p) => {
                        let cls = panic_class(p);
                        let sig = if cls.contains("overflow") { format!("panic:{}", cls) } else { format!("panic:aggregate-large-table|{}", cls) };
                        ctx.violation(case, sig, json!({"statement": sql, "rows": n, "detail": p, "columnar": b.hit("columnar")}));
                        break;
                    }
                    Outcome::Rows(r) if !r.is_empty() => {
                        let ok_sum = match &r[0][0] {
                            Canon::Null => sel.is_empty() || !(I64MIN..=I64MAX).contains(&exact),
                            g => judge(g, Some((exact, false))).is_ok(),
                        };
                        let all = vals.iter().filter(|(_, w)| keep == 9 || (keep == 1 && *w == 1) || (keep == -1 && *w >= 1)).count();
                        let ok_count = canon_int(&r[0][1]) == Some(all as i128);
                        let ok_avg = match (&r[0][2], sel.is_empty()) {
                            (Canon::Null, _) => true,
                            (g, false) => g.as_f64().map_or(false, |f| {
                                let e = exact as f64 / sel.len() as f64;
                                (f - e).abs() <= e.abs() * 1e-9 + 1e-6
                            }),
                            _ => false,
                        };
                        if !(ok_sum && ok_count && ok_avg) {
                            ctx.violation(case, format!("wrong-aggregate:large-table|{}", if !ok_sum { "sum" } else if !ok_count { "count" } else { "avg" }), json!({"statement": sql, "rows": n, "engine": crate::core::canon::show_rows(r, 3), "exact_sum": exact.to_string(), "count": sel.len(), "columnar": b.hit("columnar")}));
                            break;
                        }
                        ctx.nontrivial(format!("aggregate-large-table|{}|{}", if b.hit("columnar") { "columnar" } else { "row" }, if (I64MIN..=I64MAX).contains(&exact) { "sum-in-range" } else { "sum-out-of-range" }));
                    }
                    _ => {
                        ctx.nontrivial("aggregate-large-table|error".to_string());
                    }
                }
            }
        }
        // second phase: generated multi-table queries (joins, subqueries, aggregates, set
        // operations) whose integer literals are replaced by boundary values
        let tables = crate::gen::build::gen_tables(&mut rng, 2, 6);
        let mut s2 = crate::gen::dual::load_vibe(&tables);
        for k in 0..6 {
            let q = {
                let mut g = crate::gen::build::Gen { rng: &mut rng, tables: &tables, sub_budget: 2, allow_like: true };
                if k % 2 == 0 { g.plain_select(2) } else { g.agg_select(2) }
            };
            let sql = mutate_literals(&mut rng, &q.render(crate::gen::ast::Dialect::Vibe));
            let out = s2.exec(&sql);
            ctx.eval();
            if let Outcome::Panic(p) = &out {
                let cls = panic_class(p);
                let sig = if cls.contains("overflow") { format!("panic:{}", cls) } else { format!("panic:generated-query|{}", cls) };
                ctx.violation(case, sig, json!({"statement": sql, "detail": p, "tables": crate::gen::dual::tables_json(&tables)}));
                break;
            }
            ctx.nontrivial(format!("generated-query|{}", if out.is_err() { "error" } else { "rows" }));
            let rec = s2.record;
            s2.record = false;
            let sane = s2.query(&format!("SELECT COUNT(*) FROM {}", tables[0].name));
            s2.record = rec;
            if sane.is_err() {
                ctx.violation(case, "unusable-after:generated-query".to_string(), json!({"statement": sql, "detail": format!("{:?}", sane)}));
                break;
            }
        }
    }
}

/// replace some stand-alone integer literals by boundary values
fn mutate_literals(rng: &mut Rng, sql: &str) -> String {
    let chars: Vec<char> = sql.chars().collect();
    let mut out = String::new();
    let mut i = 0;
    let mut in_str = false;
    while i < chars.len() {
        let c = chars[i];
        if c == '\'' {
            in_str = !in_str;
            out.push(c);
            i += 1;
            continue;
        }
        let prev_ident = i > 0 && (chars[i - 1].is_alphanumeric() || chars[i - 1] == '_' || chars[i - 1] == '.');
        if !in_str && c.is_ascii_digit() && !prev_ident {
            let mut j = i;
            while j < chars.len() && (chars[j].is_ascii_digit() || chars[j] == '.') {
                j += 1;
            }
            let follows_ident = j < chars.len() && (chars[j].is_alphabetic() || chars[j] == '_');
            if !follows_ident && rng.chance(1, 2) {
                out.push_str(&lit_sql(*rng.pick(&BIG)));
            } else {
                out.extend(&chars[i..j]);
            }
            i = j;
            continue;
        }
        out.push(c);
        i += 1;
    }
    out
}
