//! C17 — the disk-backed B+ tree behaves as an ordered multimap and stays well-formed.

use std::cmp::Ordering::{Greater, Less};
use std::collections::{BTreeMap, HashMap};
use std::sync::Arc;

use serde_json::json;
use vibesql_storage::btree::{BTreeIndex, VerifNode};
use vibesql_storage::page::PageManager;
use vibesql_storage::NativeStorage;
use vibesql_types::{DataType, SqlValue};

use crate::core::ctx::Ctx;
use crate::core::rng::Rng;
use crate::core::session::guard;
use crate::core::util::panic_class;

type Key = Vec<SqlValue>;

struct Schema {
    name: &'static str,
    types: Vec<DataType>,
}

fn schemas() -> Vec<Schema> {
    vec![
        Schema { name: "varchar200", types: vec![DataType::Varchar { max_length: Some(200) }] },
        Schema { name: "int+varchar100", types: vec![DataType::Integer, DataType::Varchar { max_length: Some(100) }] },
        Schema { name: "varchar50", types: vec![DataType::Varchar { max_length: Some(50) }] },
        Schema { name: "int", types: vec![DataType::Integer] },
        Schema { name: "double", types: vec![DataType::DoublePrecision] },
    ]
}

fn gen_key(rng: &mut Rng, s: &Schema, domain: i64) -> Key {
    s.types
        .iter()
        .map(|t| {
            if rng.chance(1, 25) {
                return SqlValue::Null;
            }
            match t {
                DataType::Integer => SqlValue::Integer(rng.range(-domain / 2, domain / 2)),
                DataType::DoublePrecision => SqlValue::Double(rng.range(-domain, domain) as f64 / 4.0),
                _ => {
                    let n = rng.range(0, domain);
                    // strings with shared prefixes and varying length
                    SqlValue::Varchar(format!("{}{}", ["k", "key", "é", ""][(n % 4) as usize], n))
                }
            }
        })
        .collect()
}

fn kshow(k: &Key) -> String {
    format!("{:?}", k)
}

struct Env {
    dir: std::path::PathBuf,
}
impl Drop for Env {
    fn drop(&mut self) {
        let _ = std::fs::remove_dir_all(&self.dir);
    }
}

fn err_class(e: &str) -> &'static str {
    if e.contains("failed to write whole buffer") {
        "page-overflow"
    } else {
        "other"
    }
}

fn sorted(mut v: Vec<usize>) -> Vec<usize> {
    v.sort();
    v
}

pub fn run(ctx: &mut Ctx) {
    let total = ctx.n(160, 6000);
    for case in ctx.my_cases(total) {
        ctx.begin_case(case);
        let mut rng = ctx.rng(case);
        let mut log: Vec<String> = Vec::new();
        let r = guard(|| one_case(ctx, case, &mut rng, &mut log));
        if let Err(p) = r {
            let tail: Vec<String> = log.iter().rev().take(25).rev().cloned().collect();
            ctx.violation(case, format!("panic:{}", panic_class(&p)), json!({"panic": p, "note": "panic escaped a B+ tree operation", "ops_so_far": log.len(), "last_ops": tail}));
        }
    }
}

/// Directed witness for the known page-overflow finding: a leaf filled close to `degree` with
/// INTEGER keys cannot take further row ids for duplicate keys.
fn overflow_witness(ctx: &mut Ctx, case: u64) {
    let dir = std::env::temp_dir().join(format!("vverif_c17_{}_{}", std::process::id(), case));
    let _ = std::fs::remove_dir_all(&dir);
    std::fs::create_dir_all(&dir).unwrap();
    let _env = Env { dir: dir.clone() };
    let storage = Arc::new(NativeStorage::new(&dir).unwrap());
    let pm = Arc::new(PageManager::new("t.idx", storage).unwrap());
    let mut tree = BTreeIndex::new(pm, vec![DataType::Integer]).unwrap();
    let n = tree.degree() - 2;
    let mut rid = 0usize;
    for i in 0..n {
        ctx.eval();
        if let Err(e) = tree.insert(vec![SqlValue::Integer(i as i64)], rid) {
            ctx.violation(case, format!("insert:error:{}", err_class(&e.to_string())), json!({"directed": "unique fill", "at": i, "err": e.to_string()}));
            return;
        }
        rid += 1;
    }
    for i in 0..n {
        for _ in 0..3 {
            ctx.eval();
            if let Err(e) = tree.insert(vec![SqlValue::Integer(i as i64)], rid) {
                ctx.violation(
                    case,
                    format!("insert:error:{}", err_class(&e.to_string())),
                    json!({"directed": "INTEGER key schema, one leaf holding degree-2 unique keys, then further row ids for existing keys", "unique_keys": n, "row_ids_total": rid, "err": e.to_string()}),
                );
                return;
            }
            rid += 1;
        }
    }
    ctx.nontrivial("directed:overflow-witness-did-not-fail");
}

fn one_case(ctx: &mut Ctx, case: u64, rng: &mut Rng, log: &mut Vec<String>) {
    if case == 0 {
        overflow_witness(ctx, case);
        return;
    }
    let schs = schemas();
    let sch = &schs[rng.usize(schs.len())];
    let dir = std::env::temp_dir().join(format!("vverif_c17_{}_{}", std::process::id(), case));
    let _ = std::fs::remove_dir_all(&dir);
    std::fs::create_dir_all(&dir).unwrap();
    let _env = Env { dir: dir.clone() };
    let storage = Arc::new(NativeStorage::new(&dir).unwrap());
    let pm = Arc::new(PageManager::new("t.idx", storage.clone()).unwrap());

    let domain = *rng.pick(&[8i64, 40, 200, 2000]);
    // Leaf pages are sized for one row id per key (see known finding "page-overflow"): keep the
    // number of row ids per key bounded so that the random cases stay out of that region.
    let low_degree = sch.name == "varchar200" || sch.name == "int+varchar100";
    let (dup_cap, total_cap): (usize, usize) = if low_degree { (8, usize::MAX) } else if rng.chance(1, 4) { (3, 100) } else { (1, usize::MAX) };
    let mut model: BTreeMap<Key, Vec<usize>> = BTreeMap::new();
    let mut rid_key: HashMap<usize, Key> = HashMap::new();
    let mut next_rid = 0usize;
    let bulk = rng.chance(1, 3);
    let mut tree = if bulk {
        let n = *rng.pick(&[0usize, 1, 5, 30, 300, 1500]);
        let n = n.min(total_cap);
        let mut per_key: BTreeMap<Key, usize> = BTreeMap::new();
        let mut entries: Vec<(Key, usize)> = Vec::new();
        for _ in 0..n {
            let k = gen_key(rng, sch, domain);
            let c = per_key.entry(k.clone()).or_insert(0);
            if *c >= dup_cap {
                continue;
            }
            *c += 1;
            entries.push((k, next_rid));
            next_rid += 1;
        }
        let n = entries.len();
        entries.sort_by(|a, b| a.0.cmp(&b.0));
        for (k, r) in &entries {
            model.entry(k.clone()).or_default().push(*r);
            rid_key.insert(*r, k.clone());
        }
        log.push(format!("bulk_load({} entries)", n));
        match BTreeIndex::bulk_load(entries, sch.types.clone(), pm.clone()) {
            Ok(t) => t,
            Err(e) => {
                ctx.violation(case, format!("bulk_load:error:{}", err_class(&e.to_string())), json!({"err": e.to_string(), "entries": n, "schema": sch.name}));
                return;
            }
        }
    } else {
        BTreeIndex::new(pm.clone(), sch.types.clone()).unwrap()
    };

    let nops = if ctx.quick() { rng.range(50, 500) } else { rng.range(50, 2500) };
    let delete_heavy_from = if rng.chance(1, 2) { nops * 2 / 3 } else { nops + 1 };
    let mut max_height = tree.height();
    let mut saw_shrink = false;
    let mut kinds: BTreeMap<&'static str, u64> = BTreeMap::new();
    macro_rules! fail {
        ($sig:expr, $detail:expr) => {{
            let tail: Vec<String> = log.iter().rev().take(25).rev().cloned().collect();
            ctx.violation(case, format!("{}:{}", $sig, sch.name), json!({"schema": sch.name, "bulk": bulk, "ops_so_far": log.len(), "last_ops": tail, "detail": $detail}));
            return;
        }};
    }
    macro_rules! fail_err {
        ($op:expr, $e:expr) => {{
            let tail: Vec<String> = log.iter().rev().take(25).rev().cloned().collect();
            let es = $e.to_string();
            ctx.violation(case, format!("{}:error:{}", $op, err_class(&es)), json!({"schema": sch.name, "bulk": bulk, "ops_so_far": log.len(), "last_ops": tail, "err": es}));
            return;
        }};
    }
    for step in 0..nops {
        ctx.eval();
        let del_phase = step >= delete_heavy_from;
        let pick_existing = |rng: &mut Rng, model: &BTreeMap<Key, Vec<usize>>| -> Option<Key> {
            if model.is_empty() {
                return None;
            }
            let i = rng.usize(model.len());
            model.keys().nth(i).cloned()
        };
        let op = if del_phase { rng.below(10) + 10 } else { rng.below(20) };
        match op {
            0..=8 => {
                let mut k = if rng.chance(1, 4) { pick_existing(rng, &model).unwrap_or_else(|| gen_key(rng, sch, domain)) } else { gen_key(rng, sch, domain) };
                let mut tries = 0;
                while model.get(&k).map(|v| v.len()).unwrap_or(0) >= dup_cap && tries < 6 {
                    k = gen_key(rng, sch, domain);
                    tries += 1;
                }
                if model.get(&k).map(|v| v.len()).unwrap_or(0) >= dup_cap || rid_key.len() - 0 >= total_cap.saturating_add(0) && model.values().map(|v| v.len()).sum::<usize>() >= total_cap {
                    continue;
                }
                let r = next_rid;
                next_rid += 1;
                log.push(format!("insert({}, {})", kshow(&k), r));
                *kinds.entry("insert").or_insert(0) += 1;
                if let Err(e) = tree.insert(k.clone(), r) {
                    // refusing is allowed only if nothing changed; treat as violation of multimap behaviour
                    fail_err!("insert", e);
                }
                model.entry(k.clone()).or_default().push(r);
                rid_key.insert(r, k);
            }
            9 | 10 | 11 => {
                let k = if rng.chance(3, 4) { pick_existing(rng, &model).unwrap_or_else(|| gen_key(rng, sch, domain)) } else { gen_key(rng, sch, domain) };
                log.push(format!("delete({})", kshow(&k)));
                *kinds.entry("delete").or_insert(0) += 1;
                let want = model.remove(&k).is_some();
                match tree.delete(&k) {
                    Ok(got) if got == want => {}
                    Ok(got) => fail!("delete:wrong-return", json!({"want": want, "got": got})),
                    Err(e) => fail_err!("delete", e),
                }
            }
            12 | 13 | 14 => {
                let k = if rng.chance(3, 4) { pick_existing(rng, &model).unwrap_or_else(|| gen_key(rng, sch, domain)) } else { gen_key(rng, sch, domain) };
                let rid = match model.get(&k) {
                    Some(v) if rng.chance(4, 5) => v[rng.usize(v.len())],
                    _ => next_rid + 1000,
                };
                log.push(format!("delete_specific({}, {})", kshow(&k), rid));
                *kinds.entry("delete_specific").or_insert(0) += 1;
                let mut want = false;
                if let Some(v) = model.get_mut(&k) {
                    if let Some(p) = v.iter().position(|x| *x == rid) {
                        v.remove(p);
                        want = true;
                    }
                    if v.is_empty() {
                        model.remove(&k);
                    }
                }
                match tree.delete_specific(&k, rid) {
                    Ok(got) if got == want => {}
                    Ok(got) => fail!("delete_specific:wrong-return", json!({"want": want, "got": got})),
                    Err(e) => fail_err!("delete_specific", e),
                }
            }
            15 | 16 => {
                let k = if rng.chance(2, 3) { pick_existing(rng, &model).unwrap_or_else(|| gen_key(rng, sch, domain)) } else { gen_key(rng, sch, domain) };
                log.push(format!("lookup({})", kshow(&k)));
                *kinds.entry("lookup").or_insert(0) += 1;
                let want = sorted(model.get(&k).cloned().unwrap_or_default());
                match tree.lookup(&k) {
                    Ok(got) if sorted(got.clone()) == want => {}
                    Ok(got) => fail!("lookup:wrong-rows", json!({"want": want, "got": got})),
                    Err(e) => fail!("lookup:error", json!({"err": e.to_string()})),
                }
            }
            17 => {
                let mut keys: Vec<Key> = (0..rng.range(0, 5)).map(|_| if rng.chance(2, 3) { pick_existing(rng, &model).unwrap_or_else(|| gen_key(rng, sch, domain)) } else { gen_key(rng, sch, domain) }).collect();
                keys.sort();
                keys.dedup();
                rng.shuffle(&mut keys);
                log.push(format!("multi_lookup({} keys)", keys.len()));
                *kinds.entry("multi_lookup").or_insert(0) += 1;
                let mut want = Vec::new();
                for k in &keys {
                    want.extend(model.get(k).cloned().unwrap_or_default());
                }
                match tree.multi_lookup(&keys) {
                    Ok(got) if sorted(got.clone()) == sorted(want.clone()) => {}
                    Ok(got) => fail!("multi_lookup:wrong-rows", json!({"keys": keys.iter().map(kshow).collect::<Vec<_>>(), "want": sorted(want), "got": sorted(got)})),
                    Err(e) => fail!("multi_lookup:error", json!({"err": e.to_string()})),
                }
            }
            _ => {
                let mk = |rng: &mut Rng, model: &BTreeMap<Key, Vec<usize>>| -> Option<Key> {
                    match rng.below(4) {
                        0 => None,
                        1 => Some(gen_key(rng, sch, domain)),
                        _ => pick_existing(rng, model).or_else(|| Some(gen_key(rng, sch, domain))),
                    }
                };
                let (a, b) = (mk(rng, &model), mk(rng, &model));
                let (ia, ib) = (rng.chance(1, 2), rng.chance(1, 2));
                log.push(format!("range_scan({:?}, {:?}, {}, {})", a.as_ref().map(kshow), b.as_ref().map(kshow), ia, ib));
                *kinds.entry("range_scan").or_insert(0) += 1;
                let mut want: Vec<usize> = Vec::new();
                for (k, v) in &model {
                    let lo_ok = match &a {
                        None => true,
                        Some(s) => if ia { k.cmp(s) != Less } else { k.cmp(s) == Greater },
                    };
                    let hi_ok = match &b {
                        None => true,
                        Some(e) => if ib { k.cmp(e) != Greater } else { k.cmp(e) == Less },
                    };
                    if lo_ok && hi_ok {
                        want.extend(v.iter().cloned());
                    }
                }
                match tree.range_scan(a.as_ref(), b.as_ref(), ia, ib) {
                    Ok(got) => {
                        if sorted(got.clone()) != sorted(want.clone()) {
                            let missing: Vec<usize> = want.iter().filter(|r| !got.contains(r)).cloned().collect();
                            let extra: Vec<usize> = got.iter().filter(|r| !want.contains(r)).cloned().collect();
                            let kind = if !missing.is_empty() && extra.is_empty() { "missing-rows" } else if missing.is_empty() { "extra-rows" } else { "wrong-rows" };
                            let bounds = format!("{}{}", if a.is_some() { if ia { "[" } else { "(" } } else { "-" }, if b.is_some() { if ib { "]" } else { ")" } } else { "-" });
                            fail!(format!("range_scan:{}:{}", kind, bounds), json!({"want": want.len(), "got": got.len(), "missing": missing.iter().take(5).map(|r| kshow(&rid_key[r])).collect::<Vec<_>>(), "extra": extra.iter().take(5).map(|r| rid_key.get(r).map(kshow)).collect::<Vec<_>>()}));
                        }
                        // key order across the scan must be non-decreasing
                        let mut prev: Option<&Key> = None;
                        for r in &got {
                            let k = &rid_key[r];
                            if let Some(p) = prev {
                                if p.cmp(k) == Greater {
                                    fail!("range_scan:not-in-key-order", json!({"prev": kshow(p), "next": kshow(k)}));
                                }
                            }
                            prev = Some(k);
                        }
                    }
                    Err(e) => fail!("range_scan:error", json!({"err": e.to_string()})),
                }
            }
        }
        let h = tree.height();
        if h > max_height {
            max_height = h;
        }
        if h < max_height {
            saw_shrink = true;
        }
        if step % 40 == 39 || step == nops - 1 {
            if let Some((sig, detail)) = structure(&tree, &model) {
                fail!(format!("structure:{}", sig), detail);
            }
        }
    }
    // persistence: reopen the file and compare everything
    // (PageManager::flush is not called: it stores its own metadata in page 0, which the tree also uses)
    // (the file is not reopened through NativeStorage::open_file, which truncates it)
    let reload = guard(|| BTreeIndex::load(pm.clone()));
    log.push("reload".to_string());
    match reload {
        Ok(Ok(t2)) => {
            ctx.eval();
            match t2.range_scan(None, None, true, true) {
                Ok(got) => {
                    let want: Vec<usize> = model.values().flatten().cloned().collect();
                    if sorted(got) != sorted(want) {
                        fail!("reload:full-scan-differs", json!({}));
                    }
                }
                Err(e) => fail!("reload:scan-error", json!({"err": e.to_string()})),
            }
            for k in model.keys().take(50) {
                match t2.lookup(k) {
                    Ok(got) if sorted(got.clone()) == sorted(model[k].clone()) => {}
                    other => fail!("reload:lookup-differs", json!({"key": kshow(k), "got": format!("{:?}", other)})),
                }
            }
            if let Some((sig, detail)) = structure(&t2, &model) {
                fail!(format!("reload:structure:{}", sig), detail);
            }
        }
        Ok(Err(e)) => fail!("reload:load-error", json!({"err": e.to_string()})),
        Err(p) => fail!(format!("reload:panic:{}", panic_class(&p)), json!({"panic": p})),
    }
    ctx.nontrivial(format!(
        "{}:bulk={}:domain={}:maxheight={}:shrunk={}:delphase={}",
        sch.name,
        bulk,
        domain,
        max_height,
        saw_shrink,
        delete_heavy_from <= nops
    ));
    for (k, v) in kinds {
        ctx.count(&format!("op:{}", k), v);
    }
    ctx.count(&format!("height_reached:{}", max_height), 1);
    if saw_shrink {
        ctx.count("root_collapse_seen", 1);
    }
    ctx.sample(|| json!({"schema": sch.name, "bulk": bulk, "ops": log.len(), "max_height": max_height, "final_keys": model.len(), "first_ops": log.iter().take(6).collect::<Vec<_>>()}));
}

/// Well-formedness of the persisted tree + agreement with the model's key set.
pub fn structure(tree: &BTreeIndex, model: &BTreeMap<Key, Vec<usize>>) -> Option<(String, serde_json::Value)> {
    let nodes = match tree.verif_dump() {
        Ok(n) => n,
        Err(e) => return Some(("dump-error".into(), json!({"err": e.to_string(), "note": "a node could not be read back as the kind its depth requires (non-uniform leaf depth or corrupt page)"}))),
    };
    let by_id: HashMap<u64, &VerifNode> = nodes
        .iter()
        .map(|n| match n {
            VerifNode::Internal { page_id, .. } | VerifNode::Leaf { page_id, .. } => (*page_id as u64, n),
        })
        .collect();
    // in-order leaves via recursive descent with bounds
    let mut leaves_in_order: Vec<u64> = Vec::new();
    let mut all_entries: Vec<(Key, Vec<usize>)> = Vec::new();
    fn walk(
        id: u64,
        lo: Option<&Key>,
        hi: Option<&Key>,
        by_id: &HashMap<u64, &VerifNode>,
        leaves: &mut Vec<u64>,
        entries: &mut Vec<(Key, Vec<usize>)>,
    ) -> Option<(String, serde_json::Value)> {
        match by_id.get(&id) {
            None => Some(("dangling-child".into(), json!({"page": id}))),
            Some(VerifNode::Leaf { entries: es, .. }) => {
                for w in es.windows(2) {
                    if w[0].0.cmp(&w[1].0) != Less {
                        return Some(("leaf-keys-unsorted".into(), json!({"page": id, "a": format!("{:?}", w[0].0), "b": format!("{:?}", w[1].0)})));
                    }
                }
                for (k, rids) in es {
                    if let Some(l) = lo {
                        if k.cmp(l) == Less {
                            return Some(("key-below-separator".into(), json!({"page": id, "key": format!("{:?}", k), "separator": format!("{:?}", l)})));
                        }
                    }
                    if let Some(h) = hi {
                        if k.cmp(h) != Less {
                            return Some(("key-not-below-separator".into(), json!({"page": id, "key": format!("{:?}", k), "separator": format!("{:?}", h)})));
                        }
                    }
                    if rids.is_empty() {
                        return Some(("entry-without-row-ids".into(), json!({"page": id, "key": format!("{:?}", k)})));
                    }
                }
                leaves.push(id);
                entries.extend(es.iter().cloned());
                None
            }
            Some(VerifNode::Internal { keys, children, .. }) => {
                if children.len() != keys.len() + 1 {
                    return Some(("internal-arity".into(), json!({"page": id, "keys": keys.len(), "children": children.len()})));
                }
                for w in keys.windows(2) {
                    if w[0].cmp(&w[1]) != Less {
                        return Some(("internal-keys-unsorted".into(), json!({"page": id})));
                    }
                }
                for (i, c) in children.iter().enumerate() {
                    let clo = if i == 0 { lo } else { Some(&keys[i - 1]) };
                    let chi = if i == keys.len() { hi } else { Some(&keys[i]) };
                    if let Some(v) = walk(*c as u64, clo, chi, by_id, leaves, entries) {
                        return Some(v);
                    }
                }
                None
            }
        }
    }
    if tree.height() == 0 {
        if !model.is_empty() {
            return Some(("height-zero-but-nonempty".into(), json!({})));
        }
        return None;
    }
    if let Some(v) = walk(tree.root_page_id() as u64, None, None, &by_id, &mut leaves_in_order, &mut all_entries) {
        return Some(v);
    }
    // leaf chain must equal in-order traversal
    let mut chain = Vec::new();
    let mut cur = leaves_in_order.first().copied().unwrap_or(0);
    let mut guard_n = 0;
    while cur != 0 && guard_n <= leaves_in_order.len() + 2 {
        chain.push(cur);
        cur = match by_id.get(&cur) {
            Some(VerifNode::Leaf { next_leaf, .. }) => *next_leaf as u64,
            _ => return Some(("leaf-chain-leaves-tree".into(), json!({"page": cur}))),
        };
        guard_n += 1;
    }
    if chain != leaves_in_order {
        return Some(("leaf-chain-differs-from-inorder".into(), json!({"chain": chain, "inorder": leaves_in_order})));
    }
    // contents
    if all_entries.len() != model.len() {
        return Some(("key-count-differs".into(), json!({"tree": all_entries.len(), "model": model.len()})));
    }
    for ((k, rids), (mk, mr)) in all_entries.iter().zip(model.iter()) {
        if k != mk || sorted(rids.clone()) != sorted(mr.clone()) {
            return Some(("entries-differ".into(), json!({"tree_key": format!("{:?}", k), "model_key": format!("{:?}", mk), "tree_rows": rids, "model_rows": mr})));
        }
    }
    None
}
