//! C28 — backend messages are well-formed PostgreSQL v3 frames (independent parser).

use std::collections::HashMap;

use bytes::BytesMut;
use serde_json::json;

use crate::core::ctx::Ctx;
use crate::core::rng::Rng;
use crate::core::session::guard;
use crate::core::util::panic_class;
use crate::server::messages::{BackendMessage, FieldDescription, TransactionStatus};

fn text(rng: &mut Rng, nul_ok: bool) -> String {
    let pool = ["", "a", "id", "name", "é", "日本語", "😀", " ", "SELECT 1", "ERROR", "42P01", "x\ny", "\"q\"", "%s", "long-"];
    let mut s = String::new();
    for _ in 0..rng.range(0, 4) {
        s.push_str(*rng.pick(&pool));
    }
    if rng.chance(1, 12) {
        s.push_str(&"z".repeat(rng.range(100, 70_000) as usize));
    }
    if nul_ok && rng.chance(1, 10) {
        let p = rng.usize(s.chars().count() + 1);
        let mut t: Vec<char> = s.chars().collect();
        t.insert(p, '\u{0}');
        s = t.into_iter().collect();
    }
    s
}

fn gen(rng: &mut Rng) -> (BackendMessage, &'static str) {
    match rng.below(12) {
        0 => (BackendMessage::AuthenticationOk, "AuthOk"),
        1 => (BackendMessage::AuthenticationCleartextPassword, "AuthClear"),
        2 => (BackendMessage::AuthenticationMD5Password { salt: [rng.below(256) as u8, 0, 255, rng.below(256) as u8] }, "AuthMD5"),
        3 => (BackendMessage::ParameterStatus { name: text(rng, false), value: text(rng, false) }, "ParameterStatus"),
        4 => (BackendMessage::BackendKeyData { process_id: rng.next() as i32, secret_key: rng.next() as i32 }, "BackendKeyData"),
        5 => (BackendMessage::ReadyForQuery { status: *rng.pick(&[TransactionStatus::Idle, TransactionStatus::InTransaction, TransactionStatus::FailedTransaction]) }, "ReadyForQuery"),
        6 => {
            let n = if rng.chance(1, 10) { rng.range(100, 1700) } else { rng.range(0, 6) };
            let fields = (0..n)
                .map(|_| FieldDescription {
                    name: text(rng, false),
                    table_oid: rng.next() as i32,
                    column_attr_number: rng.next() as i16,
                    data_type_oid: rng.next() as i32,
                    data_type_size: rng.next() as i16,
                    type_modifier: rng.next() as i32,
                    format_code: rng.below(2) as i16,
                })
                .collect();
            (BackendMessage::RowDescription { fields }, "RowDescription")
        }
        7 => {
            let n = if rng.chance(1, 10) { rng.range(100, 1700) } else { rng.range(0, 6) };
            let values = (0..n)
                .map(|_| match rng.below(4) {
                    0 => None,
                    1 => Some(vec![]),
                    2 => Some((0..rng.range(1, 20)).map(|_| rng.below(256) as u8).collect()),
                    _ => Some(text(rng, true).into_bytes()),
                })
                .collect();
            (BackendMessage::DataRow { values }, "DataRow")
        }
        8 => (BackendMessage::CommandComplete { tag: text(rng, false) }, "CommandComplete"),
        9 | 10 => {
            let mut fields = HashMap::new();
            for _ in 0..rng.range(0, 5) {
                // field type bytes are non-zero in the protocol ('S','C','M',...)
                fields.insert(*rng.pick(&[b'S', b'C', b'M', b'D', b'H', b'P', b'V', 1u8, 255u8]), text(rng, false));
            }
            if rng.chance(1, 2) {
                (BackendMessage::ErrorResponse { fields }, "ErrorResponse")
            } else {
                (BackendMessage::NoticeResponse { fields }, "NoticeResponse")
            }
        }
        _ => (BackendMessage::EmptyQueryResponse, "EmptyQuery"),
    }
}

/// Independent PostgreSQL v3 backend-frame parser (written from the protocol description).
#[derive(Debug, PartialEq)]
enum Parsed {
    Auth(i32, Vec<u8>),
    ParameterStatus(Vec<u8>, Vec<u8>),
    KeyData(i32, i32),
    Ready(u8),
    RowDesc(Vec<(Vec<u8>, i32, i16, i32, i16, i32, i16)>),
    DataRow(Vec<Option<Vec<u8>>>),
    Complete(Vec<u8>),
    ErrOrNotice(u8, Vec<(u8, Vec<u8>)>),
    Empty,
}

struct Rd<'a> {
    b: &'a [u8],
    p: usize,
}
impl<'a> Rd<'a> {
    fn u8(&mut self) -> Result<u8, String> {
        let v = *self.b.get(self.p).ok_or("short u8")?;
        self.p += 1;
        Ok(v)
    }
    fn i16(&mut self) -> Result<i16, String> {
        let s = self.b.get(self.p..self.p + 2).ok_or("short i16")?;
        self.p += 2;
        Ok(i16::from_be_bytes([s[0], s[1]]))
    }
    fn i32(&mut self) -> Result<i32, String> {
        let s = self.b.get(self.p..self.p + 4).ok_or("short i32")?;
        self.p += 4;
        Ok(i32::from_be_bytes([s[0], s[1], s[2], s[3]]))
    }
    fn cstr(&mut self) -> Result<Vec<u8>, String> {
        let rest = &self.b[self.p..];
        let n = rest.iter().position(|&c| c == 0).ok_or("cstring without terminator inside frame")?;
        let v = rest[..n].to_vec();
        self.p += n + 1;
        Ok(v)
    }
    fn take(&mut self, n: usize) -> Result<Vec<u8>, String> {
        let s = self.b.get(self.p..self.p + n).ok_or("short bytes")?;
        self.p += n;
        Ok(s.to_vec())
    }
    fn done(&self) -> bool {
        self.p == self.b.len()
    }
}

fn parse_frame(all: &[u8]) -> Result<Parsed, String> {
    if all.len() < 5 {
        return Err("frame shorter than header".into());
    }
    let ty = all[0];
    let len = i32::from_be_bytes([all[1], all[2], all[3], all[4]]);
    if len < 4 {
        return Err(format!("length field {} < 4", len));
    }
    if len as usize != all.len() - 1 {
        return Err(format!("length field {} != bytes after type byte {}", len, all.len() - 1));
    }
    let mut r = Rd { b: &all[5..], p: 0 };
    let parsed = match ty {
        b'R' => {
            let code = r.i32()?;
            let rest = r.take(r.b.len() - r.p)?;
            Parsed::Auth(code, rest)
        }
        b'S' => Parsed::ParameterStatus(r.cstr()?, r.cstr()?),
        b'K' => Parsed::KeyData(r.i32()?, r.i32()?),
        b'Z' => Parsed::Ready(r.u8()?),
        b'T' => {
            let n = r.i16()?;
            if n < 0 {
                return Err("negative field count".into());
            }
            let mut v = Vec::new();
            for _ in 0..n {
                v.push((r.cstr()?, r.i32()?, r.i16()?, r.i32()?, r.i16()?, r.i32()?, r.i16()?));
            }
            Parsed::RowDesc(v)
        }
        b'D' => {
            let n = r.i16()?;
            if n < 0 {
                return Err("negative column count".into());
            }
            let mut v = Vec::new();
            for _ in 0..n {
                let l = r.i32()?;
                if l == -1 {
                    v.push(None);
                } else if l < 0 {
                    return Err("bad value length".into());
                } else {
                    v.push(Some(r.take(l as usize)?));
                }
            }
            Parsed::DataRow(v)
        }
        b'C' => Parsed::Complete(r.cstr()?),
        b'E' | b'N' => {
            let mut v = Vec::new();
            loop {
                let t = r.u8()?;
                if t == 0 {
                    break;
                }
                v.push((t, r.cstr()?));
            }
            Parsed::ErrOrNotice(ty, v)
        }
        b'I' => Parsed::Empty,
        _ => return Err(format!("unknown type byte {}", ty)),
    };
    if !r.done() {
        return Err(format!("{} unparsed bytes inside frame", r.b.len() - r.p));
    }
    Ok(parsed)
}

fn expected(m: &BackendMessage) -> Parsed {
    match m {
        BackendMessage::AuthenticationOk => Parsed::Auth(0, vec![]),
        BackendMessage::AuthenticationCleartextPassword => Parsed::Auth(3, vec![]),
        BackendMessage::AuthenticationMD5Password { salt } => Parsed::Auth(5, salt.to_vec()),
        BackendMessage::ParameterStatus { name, value } => Parsed::ParameterStatus(name.clone().into_bytes(), value.clone().into_bytes()),
        BackendMessage::BackendKeyData { process_id, secret_key } => Parsed::KeyData(*process_id, *secret_key),
        BackendMessage::ReadyForQuery { status } => Parsed::Ready(match status {
            TransactionStatus::Idle => b'I',
            TransactionStatus::InTransaction => b'T',
            TransactionStatus::FailedTransaction => b'E',
        }),
        BackendMessage::RowDescription { fields } => Parsed::RowDesc(
            fields.iter().map(|f| (f.name.clone().into_bytes(), f.table_oid, f.column_attr_number, f.data_type_oid, f.data_type_size, f.type_modifier, f.format_code)).collect(),
        ),
        BackendMessage::DataRow { values } => Parsed::DataRow(values.clone()),
        BackendMessage::CommandComplete { tag } => Parsed::Complete(tag.clone().into_bytes()),
        BackendMessage::ErrorResponse { fields } => Parsed::ErrOrNotice(b'E', fields.iter().map(|(k, v)| (*k, v.clone().into_bytes())).collect()),
        BackendMessage::NoticeResponse { fields } => Parsed::ErrOrNotice(b'N', fields.iter().map(|(k, v)| (*k, v.clone().into_bytes())).collect()),
        BackendMessage::EmptyQueryResponse => Parsed::Empty,
    }
}

fn has_nul(m: &BackendMessage) -> bool {
    let z = |s: &String| s.contains('\u{0}');
    match m {
        BackendMessage::ParameterStatus { name, value } => z(name) || z(value),
        BackendMessage::RowDescription { fields } => fields.iter().any(|f| z(&f.name)),
        BackendMessage::CommandComplete { tag } => z(tag),
        BackendMessage::ErrorResponse { fields } | BackendMessage::NoticeResponse { fields } => fields.values().any(z),
        _ => false,
    }
}

pub fn run(ctx: &mut Ctx) {
    let total = ctx.n(3000, 300_000);
    for case in ctx.my_cases(total) {
        ctx.begin_case(case);
        let mut rng = ctx.rng(case);
        let (m, name) = gen(&mut rng);
        ctx.eval();
        let mut buf = BytesMut::new();
        // pre-existing bytes in the buffer must stay untouched in front of the frame
        let prefix: Vec<u8> = (0..rng.range(0, 3)).map(|_| rng.below(256) as u8).collect();
        buf.extend_from_slice(&prefix);
        if let Err(p) = guard(|| m.encode(&mut buf)) {
            ctx.violation(case, format!("panic:encode:{}:{}", name, panic_class(&p)), json!({"message": crate::core::util::trunc(&format!("{:?}", m), 400), "panic": p}));
            continue;
        }
        let nul = has_nul(&m);
        let bytes = buf.to_vec();
        if bytes[..prefix.len()] != prefix[..] {
            ctx.violation(case, format!("prefix-altered:{}", name), json!({"message": crate::core::util::trunc(&format!("{:?}", m), 400)}));
            continue;
        }
        let frame = &bytes[prefix.len()..];
        let size_class = match frame.len() { 0..=16 => "tiny", 17..=256 => "small", 257..=65535 => "mid", _ => "big" };
        let mut want = expected(&m);
        match parse_frame(frame) {
            Ok(mut got) => {
                // field order of Error/Notice maps is unspecified: compare as sets
                if let (Parsed::ErrOrNotice(_, a), Parsed::ErrOrNotice(_, b)) = (&mut got, &mut want) {
                    a.sort();
                    b.sort();
                }
                if got != want {
                    ctx.violation(
                        case,
                        format!("fields-differ:{}{}", name, if nul { ":embedded-nul" } else { "" }),
                        json!({"message": crate::core::util::trunc(&format!("{:?}", m), 600), "parsed": crate::core::util::trunc(&format!("{:?}", got), 600)}),
                    );
                } else {
                    let nf = match &m {
                        BackendMessage::RowDescription { fields } => fields.len(),
                        BackendMessage::DataRow { values } => values.len(),
                        BackendMessage::ErrorResponse { fields } | BackendMessage::NoticeResponse { fields } => fields.len(),
                        _ => 0,
                    };
                    let nfc = match nf { 0 => "f0", 1 => "f1", 2..=6 => "few", _ => "many" };
                    let nulls = matches!(&m, BackendMessage::DataRow { values } if values.iter().any(|v| v.is_none()));
                    ctx.nontrivial(format!("{}:{}:{}:{}:{}", name, size_class, nfc, if nul { "nul" } else { "plain" }, if nulls { "nullvals" } else { "-" }));
                }
            }
            Err(e) => ctx.violation(
                case,
                format!("malformed-frame:{}{}", name, if nul { ":embedded-nul" } else { "" }),
                json!({"message": crate::core::util::trunc(&format!("{:?}", m), 600), "why": e, "frame_len": frame.len()}),
            ),
        }
        ctx.sample(|| json!({"kind": name, "frame_len": frame.len(), "message": crate::core::util::trunc(&format!("{:?}", m), 200)}));
    }
}
