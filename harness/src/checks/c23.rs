//! C23 — the SQL parser is total: statement or error, no panic / stack overflow / hang.
//!
//! Panics are caught in-process; stack overflows (abort) and hangs (per-case CPU budget) are
//! attributed to the running case by the shard runner, which then restarts the shard.

use serde_json::json;
use vibesql_parser::Parser;

use crate::core::ctx::Ctx;
use crate::core::rng::Rng;
use crate::core::session::guard;
use crate::core::util::{panic_class, trunc};

const KW: [&str; 22] = [
    "SELECT", "INSERT", "UPDATE", "DELETE", "CREATE", "DROP", "ALTER", "WITH", "BEGIN", "COMMIT", "ROLLBACK", "SAVEPOINT", "GRANT", "REVOKE", "TRUNCATE", "SET", "RELEASE",
    "REPLACE", "ANALYZE", "REINDEX", "SHOW", "DESCRIBE",
];

fn looks_sql(s: &str) -> bool {
    let t = s.trim_start().to_uppercase();
    s.len() >= 8 && s.len() < 4000 && KW.iter().any(|k| t.starts_with(k) && t[k.len()..].starts_with(|c: char| c.is_whitespace()))
}

fn walk(dir: &std::path::Path, out: &mut Vec<std::path::PathBuf>, depth: usize) {
    if depth > 8 {
        return;
    }
    let Ok(rd) = std::fs::read_dir(dir) else { return };
    let mut ents: Vec<_> = rd.filter_map(|e| e.ok()).map(|e| e.path()).collect();
    ents.sort();
    for p in ents {
        let name = p.file_name().and_then(|n| n.to_str()).unwrap_or("");
        if p.is_dir() {
            if name == "target" || name == ".git" || name == "node_modules" || name == "third_party" {
                continue;
            }
            walk(&p, out, depth + 1);
        } else if name.ends_with(".rs") || name.ends_with(".sql") || name.ends_with(".test") {
            out.push(p);
        }
    }
}

/// SQL texts harvested from the repository's own test sources (string literals) and .sql/.test files.
pub fn harvest() -> Vec<String> {
    let mut files = Vec::new();
    for d in ["/repo/tests", "/repo/crates/vibesql-parser/src", "/repo/crates/vibesql-executor/src/tests", "/repo/crates/vibesql-executor/tests", "/repo/crates/vibesql-cli/src"] {
        walk(std::path::Path::new(d), &mut files, 0);
    }
    let mut out: Vec<String> = Vec::new();
    for f in files {
        let Ok(text) = std::fs::read_to_string(&f) else { continue };
        if f.extension().and_then(|e| e.to_str()) == Some("rs") {
            // string literals
            let b: Vec<char> = text.chars().collect();
            let mut i = 0;
            while i < b.len() {
                if b[i] == '"' {
                    let mut j = i + 1;
                    let mut s = String::new();
                    while j < b.len() && b[j] != '"' {
                        if b[j] == '\\' && j + 1 < b.len() {
                            match b[j + 1] {
                                'n' => s.push('\n'),
                                't' => s.push('\t'),
                                '"' => s.push('"'),
                                '\\' => s.push('\\'),
                                '\n' => {}
                                c => s.push(c),
                            }
                            j += 2;
                        } else {
                            s.push(b[j]);
                            j += 1;
                        }
                    }
                    if looks_sql(&s) {
                        out.push(s);
                    }
                    i = j + 1;
                } else {
                    i += 1;
                }
            }
        } else {
            for stmt in text.split(';') {
                let lines: Vec<&str> = stmt.lines().filter(|l| !l.trim_start().starts_with("--") && !l.trim_start().starts_with('#')).collect();
                let s = lines.join("\n");
                if looks_sql(&s) {
                    out.push(s.trim().to_string());
                }
            }
        }
        if out.len() > 60_000 {
            break;
        }
    }
    out.sort();
    out.dedup();
    // builtin statements so the corpus is never empty and covers every statement kind we render
    for s in [
        "SELECT a, b + 1 AS c FROM t WHERE a BETWEEN 1 AND 10 AND b IN (1, 2, 3) ORDER BY 1 DESC LIMIT 5 OFFSET 2",
        "SELECT CASE WHEN a > 1 THEN 'x' ELSE 'y' END, COUNT(*) FROM t1 JOIN t2 ON t1.a = t2.a GROUP BY 1 HAVING COUNT(*) > 1",
        "WITH c AS (SELECT 1 AS x UNION ALL SELECT 2) SELECT * FROM c WHERE EXISTS (SELECT 1 FROM c c2 WHERE c2.x = c.x)",
        "INSERT INTO t (a, b) VALUES (1, 'x'), (2, NULL) ON DUPLICATE KEY UPDATE b = 'z'",
        "UPDATE t SET a = a + 1, b = CAST(a AS VARCHAR(10)) WHERE a NOT IN (SELECT a FROM u)",
        "CREATE TABLE t (a INTEGER PRIMARY KEY, b VARCHAR(10) NOT NULL DEFAULT 'x', c DOUBLE PRECISION CHECK (c > 0), FOREIGN KEY (b) REFERENCES u (b) ON DELETE CASCADE)",
        "CREATE TRIGGER trg AFTER UPDATE OF a ON t FOR EACH ROW WHEN (NEW.a > OLD.a) BEGIN INSERT INTO audit VALUES (NEW.a); END",
        "ALTER TABLE t ADD COLUMN d DATE; SELECT DATE '2024-01-01' + INTERVAL '1' DAY",
        "GRANT SELECT, INSERT ON TABLE t TO r WITH GRANT OPTION",
    ] {
        out.push(s.to_string());
    }
    out
}

fn tokens(s: &str) -> Vec<String> {
    let mut v = Vec::new();
    let mut cur = String::new();
    for c in s.chars() {
        if c.is_alphanumeric() || c == '_' {
            cur.push(c);
        } else {
            if !cur.is_empty() {
                v.push(std::mem::take(&mut cur));
            }
            v.push(c.to_string());
        }
    }
    if !cur.is_empty() {
        v.push(cur);
    }
    v
}

const UNI: [&str; 16] = ["\u{0}", "é", "日", "😀", "\u{FEFF}", "\u{200B}", "\u{2028}", "'", "\"", "`", "--", "/*", "*/", "\\", "\u{10FFFF}", "\u{7f}"];

fn nest(rng: &mut Rng, _quick: bool) -> (String, String) {
    // moderate depths: within what the 8 MiB main-thread stack takes (see the known finding for deep nesting)
    let n = *rng.pick(&[2usize, 10, 40, 120]);
    let kind = rng.below(9);
    nest_of(kind, n)
}

fn nest_of(kind: u64, n: usize) -> (String, String) {
    let s = match kind {
        0 => format!("SELECT {}1{}", "(".repeat(n), ")".repeat(n)),
        1 => format!("SELECT {}TRUE", "NOT ".repeat(n)),
        2 => format!("SELECT {}1", "- ".repeat(n)),
        3 => format!("SELECT 1{}", " + 1".repeat(n)),
        4 => {
            let n = n.min(4000);
            format!("SELECT * FROM {}t{}", "(SELECT * FROM ".repeat(n), ") AS x".repeat(n))
        }
        5 => {
            let n = n.min(4000);
            format!("SELECT {}0{}", "CASE WHEN a THEN ".repeat(n), " END".repeat(n))
        }
        6 => format!("SELECT 1 WHERE {}a = 1{}", "(".repeat(n), ")".repeat(n)),
        7 => {
            let n = n.min(6000);
            format!("SELECT {}1{}", "ABS(".repeat(n), ")".repeat(n))
        }
        _ => format!("SELECT 1 FROM t WHERE a IN {}1{}", "(SELECT ".repeat(n.min(3000)), ")".repeat(n.min(3000))),
    };
    (s, format!("nest{}:d{}", kind, n))
}

fn cached_corpus() -> Vec<String> {
    if let Ok(dir) = std::env::var("VV_RUN_TMP") {
        let p = std::path::Path::new(&dir).join("c23_corpus.json");
        if let Ok(t) = std::fs::read_to_string(&p) {
            if let Ok(v) = serde_json::from_str::<Vec<String>>(&t) {
                return v;
            }
        }
        let v = harvest();
        let tmp = p.with_extension(format!("tmp{}", std::process::id()));
        if std::fs::write(&tmp, serde_json::to_string(&v).unwrap()).is_ok() {
            let _ = std::fs::rename(&tmp, &p);
        }
        return v;
    }
    harvest()
}

pub fn run(ctx: &mut Ctx) {
    let corpus = cached_corpus();
    ctx.count("corpus_size", corpus.len() as u64);
    let total = ctx.n(6000, 600_000);
    let mut shown = 0;
    for case in ctx.my_cases(total) {
        let mut rng = ctx.rng(case);
        let base = &corpus[(case as usize * 7919) % corpus.len()];
        let kind = rng.below(13);
        let (input, label): (String, String) = match kind {
            // directed deep-nesting witnesses, one per recursion family
            _ if case < 9 => nest_of(case, 20_000),
            0 => (base.clone(), "verbatim".into()),
            1 => {
                let mut t = tokens(base);
                if !t.is_empty() {
                    t.remove(rng.usize(t.len()));
                }
                (t.concat(), "tok-delete".into())
            }
            2 => {
                let mut t = tokens(base);
                if !t.is_empty() {
                    let i = rng.usize(t.len());
                    let x = t[i].clone();
                    t.insert(i, x);
                }
                (t.concat(), "tok-dup".into())
            }
            3 => {
                let mut t = tokens(base);
                if t.len() > 1 {
                    let (i, j) = (rng.usize(t.len()), rng.usize(t.len()));
                    t.swap(i, j);
                }
                (t.concat(), "tok-swap".into())
            }
            4 => {
                let c: Vec<char> = base.chars().collect();
                let cut = rng.usize(c.len() + 1);
                (c[..cut].iter().collect(), "truncate".into())
            }
            5 | 6 => nest(&mut rng, ctx.quick()),
            7 => {
                let n = *rng.pick(&[100usize, 5000, 60_000]);
                match rng.below(4) {
                    0 => (format!("SELECT {}", "9".repeat(n)), format!("huge-int:{}", n)),
                    1 => (format!("SELECT 1.{}e{}", "9".repeat(n.min(2000)), "9".repeat(20)), "huge-float".into()),
                    2 => (format!("SELECT '{}'", "x".repeat(n)), format!("huge-string:{}", n)),
                    _ => (format!("SELECT {} FROM t", "a".repeat(n)), format!("huge-ident:{}", n)),
                }
            }
            8 => {
                let open = *rng.pick(&["'", "\"", "/*", "`", "--", "E'", "X'", "N'", "$$"]);
                let c: Vec<char> = base.chars().collect();
                let p = rng.usize(c.len() + 1);
                let s: String = c[..p].iter().collect::<String>() + open + &c[p..].iter().collect::<String>();
                (s, format!("unterminated:{}", open))
            }
            9 | 10 => {
                let mut c: Vec<String> = base.chars().map(|x| x.to_string()).collect();
                for _ in 0..rng.range(1, 3) {
                    let p = rng.usize(c.len() + 1);
                    c.insert(p, rng.pick(&UNI).to_string());
                }
                (c.concat(), "unicode-inject".into())
            }
            11 => {
                // a long token made of multi-byte characters (string, delimited or bare identifier)
                // dropped at a random token boundary: exercises error-message construction
                let ch = *rng.pick(&["é", "日", "😀", "ß", "\u{301}"]);
                let body = format!("{}{}", "a".repeat(rng.usize(4)), ch.repeat(rng.range(1, 120) as usize));
                let tok = match rng.below(4) {
                    0 => format!("'{}'", body),
                    1 => format!("\"{}\"", body),
                    2 => format!("`{}`", body),
                    _ => body,
                };
                let mut t = tokens(base);
                let p = rng.usize(t.len() + 1);
                t.insert(p, format!(" {} ", tok));
                (t.concat(), "long-unicode-token".into())
            }
            _ => {
                // splice two corpus statements at random token boundaries
                let other = &corpus[rng.usize(corpus.len())];
                let (a, b) = (tokens(base), tokens(other));
                let (i, j) = (rng.usize(a.len() + 1), rng.usize(b.len() + 1));
                (a[..i].concat() + &b[j..].concat(), "splice".into())
            }
        };
        let input = if input.len() > 65_536 { input.chars().take(60_000).collect() } else { input };
        ctx.begin_case_labeled(case, label.split(':').next().unwrap_or(""));
        ctx.eval();
        match guard(|| Parser::parse_sql(&input).is_ok()) {
            Ok(ok) => ctx.nontrivial(format!("{}:{}", label, if ok { "parsed" } else { "error" })),
            Err(p) => ctx.violation(case, format!("panic:{}", panic_class(&p)), json!({"input": trunc(&input, 600), "mutation": label, "panic": p})),
        }
        if shown < 3 && case % 5 == 0 {
            shown += 1;
            let lab = label.clone();
            let inp = trunc(&input, 160);
            ctx.sample(|| json!({"mutation": lab, "input": inp}));
        }
    }
}
