//! C12 — referential integrity holds after every statement.
//! Oracles: (1) orphan scan of the engine's tables after every statement, (2) executable model of
//! the SQL referential actions (end-of-statement semantics) compared with the engine's table
//! contents after every accepted statement, (3) rejected statements leave the data unchanged,
//! (4) statements that touch no RESTRICT/NO ACTION edge and reference only existing parents must
//! be accepted.

use std::collections::{BTreeMap, BTreeSet};

use serde_json::json;

use crate::core::canon::Canon;
use crate::core::ctx::Ctx;
use crate::core::rng::Rng;
use crate::core::session::{Outcome, Session};
use crate::core::util::panic_class;

type V = Option<i64>;
type Row = Vec<V>;

#[derive(Clone, Copy, PartialEq, Eq, Debug)]
enum Act {
    Cascade,
    SetNull,
    SetDefault,
    NoAction,
    Restrict,
}
impl Act {
    fn sql(self) -> &'static str {
        match self {
            Act::Cascade => "CASCADE",
            Act::SetNull => "SET NULL",
            Act::SetDefault => "SET DEFAULT",
            Act::NoAction => "NO ACTION",
            Act::Restrict => "RESTRICT",
        }
    }
    fn tag(self) -> &'static str {
        match self {
            Act::Cascade => "cascade",
            Act::SetNull => "set-null",
            Act::SetDefault => "set-default",
            Act::NoAction | Act::Restrict => "restrict",
        }
    }
    fn blocks(self) -> bool {
        matches!(self, Act::NoAction | Act::Restrict)
    }
}

#[derive(Clone, Debug)]
struct Fk {
    child: usize,
    cols: Vec<usize>,
    parent: usize,
    pcols: Vec<usize>,
    on_delete: Act,
    on_update: Act,
}

#[derive(Clone, Debug)]
struct Tab {
    name: &'static str,
    cols: Vec<&'static str>,
    pk: Vec<usize>,
    defaults: Vec<V>,
    rows: Vec<Row>,
}

#[derive(Clone)]
struct Model {
    tabs: Vec<Tab>,
    fks: Vec<Fk>,
}

fn key_of(r: &Row, cols: &[usize]) -> Option<Vec<i64>> {
    cols.iter().map(|&c| r[c]).collect()
}

impl Model {
    fn parent_has(&self, fk: &Fk, key: &[i64]) -> bool {
        self.tabs[fk.parent].rows.iter().any(|r| key_of(r, &fk.pcols).as_deref() == Some(key))
    }
    /// (child table, row, fk index) triples whose non-NULL key has no parent
    fn orphans(&self) -> Vec<(usize, Row, usize)> {
        let mut out = vec![];
        for (i, fk) in self.fks.iter().enumerate() {
            for r in &self.tabs[fk.child].rows {
                if let Some(k) = key_of(r, &fk.cols) {
                    if !self.parent_has(fk, &k) {
                        out.push((fk.child, r.clone(), i));
                    }
                }
            }
        }
        out
    }
    fn canon(&self) -> Vec<Vec<Row>> {
        self.tabs
            .iter()
            .map(|t| {
                let mut r = t.rows.clone();
                r.sort();
                r
            })
            .collect()
    }
}

#[derive(Clone, Debug)]
enum Pred {
    All,
    Eq(usize, i64),
    Le(usize, i64),
    Ge(usize, i64),
    IsNull(usize),
}
impl Pred {
    fn sql(&self, t: &Tab) -> String {
        match self {
            Pred::All => String::new(),
            Pred::Eq(c, k) => format!(" WHERE {} = {}", t.cols[*c], k),
            Pred::Le(c, k) => format!(" WHERE {} <= {}", t.cols[*c], k),
            Pred::Ge(c, k) => format!(" WHERE {} >= {}", t.cols[*c], k),
            Pred::IsNull(c) => format!(" WHERE {} IS NULL", t.cols[*c]),
        }
    }
    fn holds(&self, r: &Row) -> bool {
        match self {
            Pred::All => true,
            Pred::Eq(c, k) => r[*c] == Some(*k),
            Pred::Le(c, k) => r[*c].map_or(false, |v| v <= *k),
            Pred::Ge(c, k) => r[*c].map_or(false, |v| v >= *k),
            Pred::IsNull(c) => r[*c].is_none(),
        }
    }
    fn tag(&self) -> &'static str {
        match self {
            Pred::All => "all-rows",
            Pred::Eq(0, _) => "by-first-column",
            _ => "by-predicate",
        }
    }
}

#[derive(Clone, Debug)]
enum Stmt {
    Insert { t: usize, rows: Vec<Row> },
    Delete { t: usize, p: Pred },
    /// SET col = col + delta (key move to a fresh value) or SET col = value
    UpdateShift { t: usize, col: usize, delta: i64, p: Pred },
    UpdateSet { t: usize, col: usize, val: V, p: Pred },
    Truncate { t: usize },
}

fn lit(v: V) -> String {
    v.map_or("NULL".to_string(), |i| i.to_string())
}

impl Stmt {
    fn sql(&self, m: &Model) -> String {
        match self {
            Stmt::Insert { t, rows } => {
                // negative literals are not accepted in VALUES; all generated values are >= 0
                let vals: Vec<String> = rows.iter().map(|r| format!("({})", r.iter().map(|v| lit(*v)).collect::<Vec<_>>().join(", "))).collect();
                format!("INSERT INTO {} VALUES {}", m.tabs[*t].name, vals.join(", "))
            }
            Stmt::Delete { t, p } => format!("DELETE FROM {}{}", m.tabs[*t].name, p.sql(&m.tabs[*t])),
            Stmt::UpdateShift { t, col, delta, p } => {
                let c = m.tabs[*t].cols[*col];
                format!("UPDATE {} SET {} = {} + {}{}", m.tabs[*t].name, c, c, delta, p.sql(&m.tabs[*t]))
            }
            Stmt::UpdateSet { t, col, val, p } => {
                format!("UPDATE {} SET {} = {}{}", m.tabs[*t].name, m.tabs[*t].cols[*col], lit(*val), p.sql(&m.tabs[*t]))
            }
            Stmt::Truncate { t } => format!("TRUNCATE TABLE {}", m.tabs[*t].name),
        }
    }
}

/// What the model says about a statement.
struct Verdict {
    /// Some(state) when the statement is acceptable under end-of-statement checking
    accept: Option<Model>,
    /// the engine may legitimately decide differently (row-at-a-time checking, TRUNCATE policy)
    ambiguous: bool,
    /// which referential actions were exercised
    touched: BTreeSet<&'static str>,
}

fn apply(m: &Model, st: &Stmt) -> Verdict {
    let mut n = m.clone();
    let mut ambiguous = false;
    let mut touched = BTreeSet::new();
    match st {
        Stmt::Insert { t, rows } => {
            for r in rows {
                if let Some(k) = key_of(r, &n.tabs[*t].pk) {
                    if n.tabs[*t].rows.iter().any(|o| key_of(o, &n.tabs[*t].pk).as_deref() == Some(&k[..])) {
                        // duplicate key: not what this check is about
                        return Verdict { accept: None, ambiguous: true, touched };
                    }
                }
                // a parent that only exists once this statement's earlier rows are in: row-at-a-time
                // engines differ
                for fk in m.fks.iter().filter(|f| f.child == *t) {
                    if let Some(k) = key_of(r, &fk.cols) {
                        touched.insert("insert-check");
                        if !m.parent_has(fk, &k) {
                            ambiguous = true;
                        }
                    }
                }
                n.tabs[*t].rows.push(r.clone());
            }
            if !n.orphans().is_empty() {
                return Verdict { accept: None, ambiguous: false, touched };
            }
        }
        Stmt::Truncate { t } => {
            // policy differs between engines (reject whenever referenced / only when referenced rows exist)
            ambiguous = true;
            touched.insert("truncate");
            n.tabs[*t].rows.clear();
            if !n.orphans().is_empty() {
                return Verdict { accept: None, ambiguous: false, touched };
            }
        }
        Stmt::Delete { t, p } => {
            // deleted[table] = set of row indices
            let mut deleted: Vec<BTreeSet<usize>> = m.tabs.iter().map(|_| BTreeSet::new()).collect();
            deleted[*t] = m.tabs[*t].rows.iter().enumerate().filter(|(_, r)| p.holds(r)).map(|(i, _)| i).collect();
            // cascade closure
            loop {
                let mut grew = false;
                for fk in &m.fks {
                    if fk.on_delete != Act::Cascade {
                        continue;
                    }
                    let gone: Vec<Vec<i64>> = deleted[fk.parent].iter().filter_map(|&i| key_of(&m.tabs[fk.parent].rows[i], &fk.pcols)).collect();
                    for (ci, cr) in m.tabs[fk.child].rows.iter().enumerate() {
                        if let Some(k) = key_of(cr, &fk.cols) {
                            if gone.contains(&k) && deleted[fk.child].insert(ci) {
                                touched.insert("delete-cascade");
                                grew = true;
                            }
                        }
                    }
                }
                if !grew {
                    break;
                }
            }
            // set null / set default on survivors; blockers
            for fk in &m.fks {
                let gone: Vec<Vec<i64>> = deleted[fk.parent].iter().filter_map(|&i| key_of(&m.tabs[fk.parent].rows[i], &fk.pcols)).collect();
                for (ci, cr) in m.tabs[fk.child].rows.iter().enumerate() {
                    let Some(k) = key_of(cr, &fk.cols) else { continue };
                    if !gone.contains(&k) {
                        continue;
                    }
                    if deleted[fk.child].contains(&ci) {
                        if fk.on_delete.blocks() {
                            // the referencing row disappears in the same statement
                            ambiguous = true;
                        }
                        if fk.on_delete != Act::Cascade {
                            // removed through another edge while this edge would have acted on it
                            ambiguous = true;
                        }
                        continue;
                    }
                    match fk.on_delete {
                        Act::Cascade => unreachable!(),
                        Act::SetNull => {
                            touched.insert("delete-set-null");
                            for &c in &fk.cols {
                                n.tabs[fk.child].rows[ci][c] = None;
                            }
                        }
                        Act::SetDefault => {
                            touched.insert("delete-set-default");
                            for &c in &fk.cols {
                                n.tabs[fk.child].rows[ci][c] = m.tabs[fk.child].defaults[c];
                            }
                        }
                        Act::NoAction | Act::Restrict => {
                            touched.insert("delete-restrict");
                            return Verdict { accept: None, ambiguous: false, touched };
                        }
                    }
                }
            }
            for (ti, d) in deleted.iter().enumerate() {
                let mut i = 0;
                n.tabs[ti].rows.retain(|_| {
                    i += 1;
                    !d.contains(&(i - 1))
                });
            }
            if !n.orphans().is_empty() {
                // SET DEFAULT to a parent that does not exist (or was deleted)
                return Verdict { accept: None, ambiguous: true, touched };
            }
        }
        Stmt::UpdateShift { t, col, .. } | Stmt::UpdateSet { t, col, .. } => {
            let (p, newval): (&Pred, Box<dyn Fn(&Row) -> V>) = match st {
                Stmt::UpdateShift { col, delta, p, .. } => {
                    let (c, d) = (*col, *delta);
                    (p, Box::new(move |r: &Row| r[c].map(|v| v + d)))
                }
                Stmt::UpdateSet { val, p, .. } => {
                    let v = *val;
                    (p, Box::new(move |_: &Row| v))
                }
                _ => unreachable!(),
            };
            let hit: Vec<usize> = m.tabs[*t].rows.iter().enumerate().filter(|(_, r)| p.holds(r)).map(|(i, _)| i).collect();
            // (old key, new key) per referencing edge, computed from the pre-image
            for &i in &hit {
                n.tabs[*t].rows[i][*col] = newval(&m.tabs[*t].rows[i]);
            }
            if n.tabs[*t].pk.contains(col) {
                let mut seen = BTreeSet::new();
                for r in &n.tabs[*t].rows {
                    match key_of(r, &n.tabs[*t].pk) {
                        None => return Verdict { accept: None, ambiguous: true, touched },
                        Some(k) => {
                            if !seen.insert(k) {
                                return Verdict { accept: None, ambiguous: true, touched };
                            }
                        }
                    }
                }
            }
            for fk in m.fks.iter().filter(|f| f.parent == *t && f.pcols.contains(col)) {
                for &i in &hit {
                    let (Some(old), newk) = (key_of(&m.tabs[*t].rows[i], &fk.pcols), key_of(&n.tabs[*t].rows[i], &fk.pcols)) else { continue };
                    if Some(&old) == newk.as_ref() {
                        continue;
                    }
                    // the old key may still exist (another row now carries it): then nothing to do
                    if n.tabs[*t].rows.iter().any(|r| key_of(r, &fk.pcols).as_ref() == Some(&old)) {
                        ambiguous = true;
                        continue;
                    }
                    for ci in 0..m.tabs[fk.child].rows.len() {
                        // the child's pre-image decides whether it referenced the old key
                        if key_of(&m.tabs[fk.child].rows[ci], &fk.cols).as_ref() != Some(&old) {
                            continue;
                        }
                        if fk.child == *t && hit.contains(&ci) && fk.cols.contains(col) {
                            // the statement also assigns the referencing column of this row
                            ambiguous = true;
                            continue;
                        }
                        match fk.on_update {
                            Act::Cascade => {
                                touched.insert("update-cascade");
                                match &newk {
                                    Some(nk) => {
                                        for (j, &c) in fk.cols.iter().enumerate() {
                                            n.tabs[fk.child].rows[ci][c] = Some(nk[j]);
                                        }
                                    }
                                    None => return Verdict { accept: None, ambiguous: true, touched },
                                }
                            }
                            Act::SetNull => {
                                touched.insert("update-set-null");
                                for &c in &fk.cols {
                                    n.tabs[fk.child].rows[ci][c] = None;
                                }
                            }
                            Act::SetDefault => {
                                touched.insert("update-set-default");
                                for &c in &fk.cols {
                                    n.tabs[fk.child].rows[ci][c] = m.tabs[fk.child].defaults[c];
                                }
                            }
                            Act::NoAction | Act::Restrict => {
                                touched.insert("update-restrict");
                                return Verdict { accept: None, ambiguous: false, touched };
                            }
                        }
                    }
                }
            }
            if m.fks.iter().any(|f| f.child == *t && f.cols.contains(col)) && !hit.is_empty() {
                touched.insert("update-child-check");
            }
            if !n.orphans().is_empty() {
                let amb = touched.contains("update-set-default");
                return Verdict { accept: None, ambiguous: amb, touched };
            }
        }
    }
    Verdict { accept: Some(n), ambiguous, touched }
}

// ---------------------------------------------------------------------------------------------

// RESTRICT is not accepted by the parser as a referential action; NO ACTION stands for both
const ACTS: [Act; 4] = [Act::Cascade, Act::SetNull, Act::SetDefault, Act::NoAction];

struct Schema {
    kind: &'static str,
    model: Model,
    ddl: Vec<String>,
}

fn fk_clause(m: &Model, fk: &Fk) -> String {
    format!(
        "REFERENCES {}({}) ON DELETE {} ON UPDATE {}",
        m.tabs[fk.parent].name,
        fk.pcols.iter().map(|&c| m.tabs[fk.parent].cols[c]).collect::<Vec<_>>().join(", "),
        fk.on_delete.sql(),
        fk.on_update.sql()
    )
}

fn gen_schema(rng: &mut Rng) -> Schema {
    let mut act = |rng: &mut Rng| *rng.pick(&ACTS);
    let tab = |name: &'static str, cols: Vec<&'static str>, pk: Vec<usize>| {
        let n = cols.len();
        Tab { name, cols, pk, defaults: vec![None; n], rows: vec![] }
    };
    let kind = *rng.pick(&["chain", "chain", "self", "self", "composite", "composite-reordered", "two-parents", "unique-ref", "self-unique-ref"]);
    let mut m = Model { tabs: vec![], fks: vec![] };
    match kind {
        "chain" => {
            m.tabs = vec![tab("P", vec!["ID", "V"], vec![0]), tab("C", vec!["ID", "PID", "V"], vec![0]), tab("G", vec!["ID", "CID", "V"], vec![0])];
            m.fks = vec![
                Fk { child: 1, cols: vec![1], parent: 0, pcols: vec![0], on_delete: act(rng), on_update: act(rng) },
                Fk { child: 2, cols: vec![1], parent: 1, pcols: vec![0], on_delete: act(rng), on_update: act(rng) },
            ];
        }
        "self" => {
            m.tabs = vec![tab("T", vec!["ID", "MGR", "V"], vec![0]), tab("C", vec!["ID", "TID", "V"], vec![0])];
            m.fks = vec![
                Fk { child: 0, cols: vec![1], parent: 0, pcols: vec![0], on_delete: act(rng), on_update: act(rng) },
                Fk { child: 1, cols: vec![1], parent: 0, pcols: vec![0], on_delete: act(rng), on_update: act(rng) },
            ];
        }
        "composite" => {
            m.tabs = vec![tab("P", vec!["A", "B", "V"], vec![0, 1]), tab("C", vec!["ID", "PA", "PB", "V"], vec![0])];
            m.fks = vec![Fk { child: 1, cols: vec![1, 2], parent: 0, pcols: vec![0, 1], on_delete: act(rng), on_update: act(rng) }];
        }
        "composite-reordered" => {
            // the REFERENCES list names the parent's key columns in another order than PRIMARY KEY
            m.tabs = vec![tab("P", vec!["A", "B", "V"], vec![0, 1]), tab("C", vec!["ID", "PB", "PA", "V"], vec![0])];
            m.fks = vec![Fk { child: 1, cols: vec![1, 2], parent: 0, pcols: vec![1, 0], on_delete: act(rng), on_update: act(rng) }];
        }
        "self-unique-ref" => {
            // a hierarchy whose parent link names a UNIQUE code column, not the primary key; the
            // codes and the ids come from the same small range on purpose
            m.tabs = vec![tab("T", vec!["ID", "U", "PU"], vec![0])];
            m.fks = vec![Fk { child: 0, cols: vec![2], parent: 0, pcols: vec![1], on_delete: act(rng), on_update: act(rng) }];
        }
        "two-parents" => {
            m.tabs = vec![tab("P", vec!["ID", "V"], vec![0]), tab("Q", vec!["ID", "V"], vec![0]), tab("C", vec!["ID", "PID", "QID", "V"], vec![0])];
            m.fks = vec![
                Fk { child: 2, cols: vec![1], parent: 0, pcols: vec![0], on_delete: act(rng), on_update: act(rng) },
                Fk { child: 2, cols: vec![2], parent: 1, pcols: vec![0], on_delete: act(rng), on_update: act(rng) },
            ];
        }
        _ => {
            // the key referenced is a UNIQUE column that is not the primary key
            m.tabs = vec![tab("P", vec!["ID", "U", "V"], vec![0]), tab("C", vec!["ID", "PU", "V"], vec![0])];
            m.fks = vec![Fk { child: 1, cols: vec![1], parent: 0, pcols: vec![1], on_delete: act(rng), on_update: act(rng) }];
        }
    }
    // SET DEFAULT needs a declared default; pick a small value that may or may not exist
    for fk in m.fks.clone() {
        if fk.on_delete == Act::SetDefault || fk.on_update == Act::SetDefault {
            for &c in &fk.cols {
                m.tabs[fk.child].defaults[c] = Some(rng.range(1, 4));
            }
        }
    }
    let mut ddl = vec![];
    let mut later = vec![];
    for (ti, t) in m.tabs.iter().enumerate() {
        let mut parts = vec![];
        let column_level: Vec<bool> = m.fks.iter().map(|f| f.child == ti && f.cols.len() == 1 && f.parent < ti && rng.chance(1, 2)).collect();
        for (ci, c) in t.cols.iter().enumerate() {
            let mut d = format!("{} INTEGER", c);
            if t.pk == vec![ci] {
                d.push_str(" PRIMARY KEY");
            }
            if (kind == "unique-ref" || kind == "self-unique-ref") && *c == "U" {
                d.push_str(" UNIQUE");
            }
            if let Some(v) = t.defaults[ci] {
                d.push_str(&format!(" DEFAULT {}", v));
            }
            for (fi, fk) in m.fks.iter().enumerate() {
                if column_level[fi] && fk.cols == vec![ci] {
                    d.push_str(&format!(" {}", fk_clause(&m, fk)));
                }
            }
            parts.push(d);
        }
        if t.pk.len() > 1 {
            parts.push(format!("PRIMARY KEY ({})", t.pk.iter().map(|&c| t.cols[c]).collect::<Vec<_>>().join(", ")));
        }
        for (fi, fk) in m.fks.iter().enumerate() {
            if fk.child != ti || column_level[fi] {
                continue;
            }
            let clause = format!("FOREIGN KEY ({}) {}", fk.cols.iter().map(|&c| t.cols[c]).collect::<Vec<_>>().join(", "), fk_clause(&m, fk));
            if fk.parent >= ti {
                later.push(format!("ALTER TABLE {} ADD CONSTRAINT FK_{}_{} {}", t.name, t.name, fi, clause));
            } else {
                parts.push(clause);
            }
        }
        ddl.push(format!("CREATE TABLE {} ({})", t.name, parts.join(", ")));
    }
    ddl.extend(later);
    Schema { kind, model: m, ddl }
}

fn fresh_id(next: &mut i64) -> i64 {
    *next += 1;
    *next
}

/// a value for a referencing column: mostly an existing parent key component
fn ref_value(rng: &mut Rng, m: &Model, fk: &Fk, j: usize) -> V {
    let keys: Vec<i64> = m.tabs[fk.parent].rows.iter().filter_map(|r| r[fk.pcols[j]]).collect();
    match rng.below(10) {
        0 => None,
        1 | 2 => Some(rng.range(1, 40)),
        _ if !keys.is_empty() => Some(*rng.pick(&keys)),
        _ => Some(rng.range(1, 12)),
    }
}

fn gen_row(rng: &mut Rng, m: &Model, t: usize, next: &mut i64) -> Row {
    let tab = &m.tabs[t];
    let mut r: Row = vec![None; tab.cols.len()];
    for c in 0..tab.cols.len() {
        r[c] = if tab.pk.contains(&c) && tab.pk.len() > 1 && m.fks.iter().any(|f| f.pcols == vec![1, 0]) {
            Some(rng.range(1, 7))
        } else if tab.pk.contains(&c) {
            if tab.pk.len() > 1 { Some(rng.range(1, 5) + if c == tab.pk[0] { 0 } else { (fresh_id(next) % 900) * 10 }) } else { Some(fresh_id(next)) }
        } else if tab.cols[c] == "U" {
            if rng.chance(1, 8) { None } else { Some(500 + fresh_id(next)) }
        } else {
            Some(rng.range(0, 4))
        };
    }
    for fk in m.fks.iter().filter(|f| f.child == t) {
        // pick one parent row (or noise) so composite keys are mostly consistent
        let parent_rows = &m.tabs[fk.parent].rows;
        if fk.child == fk.parent && (parent_rows.is_empty() || rng.chance(1, 5)) {
            // roots of a self-referencing hierarchy
            for &c in &fk.cols {
                r[c] = None;
            }
        } else if !parent_rows.is_empty() && rng.chance(7, 10) {
            let pr = rng.pick(parent_rows).clone();
            for (j, &c) in fk.cols.iter().enumerate() {
                r[c] = pr[fk.pcols[j]];
            }
            if fk.cols.len() > 1 && rng.chance(1, 6) {
                r[fk.cols[rng.usize(fk.cols.len())]] = None;
            }
        } else {
            for (j, &c) in fk.cols.iter().enumerate() {
                r[c] = ref_value(rng, m, fk, j);
            }
        }
    }
    // the engine stores the column DEFAULT when an INSERT gives an explicit NULL; that is not what
    // this property is about, so defaulted columns never receive NULL here
    for c in 0..tab.cols.len() {
        if r[c].is_none() && tab.defaults[c].is_some() {
            r[c] = Some(rng.range(1, 12));
        }
    }
    r
}

fn gen_pred(rng: &mut Rng, m: &Model, t: usize) -> Pred {
    let tab = &m.tabs[t];
    let col = rng.usize(tab.cols.len());
    let vals: Vec<i64> = tab.rows.iter().filter_map(|r| r[col]).collect();
    let k = if vals.is_empty() || rng.chance(1, 8) { rng.range(0, 30) } else { *rng.pick(&vals) };
    match rng.below(10) {
        0 => Pred::All,
        1..=4 => {
            let ids: Vec<i64> = tab.rows.iter().filter_map(|r| r[0]).collect();
            Pred::Eq(0, if ids.is_empty() { 1 } else { *rng.pick(&ids) })
        }
        5 | 6 => Pred::Eq(col, k),
        7 => Pred::Le(col, k),
        8 => Pred::Ge(col, k),
        _ => Pred::IsNull(col),
    }
}

fn gen_stmt(rng: &mut Rng, m: &Model, next: &mut i64, step: i64) -> (Stmt, &'static str) {
    let warm = step < 2 * m.tabs.len() as i64;
    let t = if warm { (step as usize / 2) % m.tabs.len() } else { rng.usize(m.tabs.len()) };
    let referenced: Vec<usize> = m.fks.iter().filter(|f| f.parent == t).flat_map(|f| f.pcols.clone()).collect();
    let referencing: Vec<usize> = m.fks.iter().filter(|f| f.child == t).flat_map(|f| f.cols.clone()).collect();
    match if warm { 0 } else { rng.below(20) } {
        0..=5 => {
            let n = if warm || rng.chance(1, 3) { rng.range(2, 4) } else { 1 };
            let mut rows = vec![];
            for _ in 0..n {
                rows.push(gen_row(rng, m, t, next));
            }
            // self-referencing tables: a later row of the statement sometimes points at an earlier
            // row of the same statement, by its referenced key or (wrongly) by its primary key
            for fk in m.fks.iter().filter(|f| f.child == t && f.parent == t && f.cols.len() == 1) {
                for i in 1..rows.len() {
                    if rng.chance(1, 3) {
                        let src = rng.usize(i);
                        rows[i][fk.cols[0]] = if rng.chance(1, 2) { rows[src][fk.pcols[0]] } else { rows[src][m.tabs[t].pk[0]] };
                    }
                }
            }
            (Stmt::Insert { t, rows }, if n > 1 { "insert-multi" } else { "insert" })
        }
        6..=10 => (Stmt::Delete { t, p: gen_pred(rng, m, t) }, "delete"),
        11..=13 if !referenced.is_empty() => {
            // move the referenced key to a fresh value (distinct residues keep keys unique)
            let col = *rng.pick(&referenced);
            (Stmt::UpdateShift { t, col, delta: 1000 * (step + 1), p: gen_pred(rng, m, t) }, "update-parent-key")
        }
        14..=16 if !referencing.is_empty() => {
            let col = *rng.pick(&referencing);
            let fk = m.fks.iter().find(|f| f.child == t && f.cols.contains(&col)).unwrap();
            let j = fk.cols.iter().position(|&c| c == col).unwrap();
            (Stmt::UpdateSet { t, col, val: ref_value(rng, m, fk, j), p: gen_pred(rng, m, t) }, "update-child-key")
        }
        17 => (Stmt::Truncate { t }, "truncate"),
        _ => {
            let col = m.tabs[t].cols.len() - 1;
            (Stmt::UpdateSet { t, col, val: Some(rng.range(0, 4)), p: gen_pred(rng, m, t) }, "update-plain-column")
        }
    }
}

fn engine_state(s: &mut Session, m: &Model) -> Result<Model, String> {
    let mut e = m.clone();
    let rec = s.record;
    s.record = false;
    for t in e.tabs.iter_mut() {
        let rows = s.query(&format!("SELECT {} FROM {}", t.cols.join(", "), t.name));
        let rows = match rows {
            Ok(r) => r,
            Err(x) => {
                s.record = rec;
                return Err(format!("{}: {}", t.name, x));
            }
        };
        t.rows = rows
            .iter()
            .map(|r| {
                r.iter()
                    .map(|v| match v {
                        Canon::Int(i) => Some(*i as i64),
                        _ => None,
                    })
                    .collect()
            })
            .collect();
    }
    s.record = rec;
    Ok(e)
}

fn show(m: &Model) -> serde_json::Value {
    json!(m.tabs.iter().map(|t| (t.name.to_string(), json!(t.rows.iter().map(|r| r.iter().map(|v| lit(*v)).collect::<Vec<_>>().join(",")).collect::<Vec<_>>()))).collect::<BTreeMap<_, _>>())
}

pub fn run(ctx: &mut Ctx) {
    let total = ctx.n(8000, 60_000);
    for case in ctx.my_cases(total) {
        ctx.begin_case(case);
        let mut rng = ctx.rng(case);
        let sch = gen_schema(&mut rng);
        let mut s = Session::new();
        let mut ok = true;
        for d in &sch.ddl {
            if s.exec(d).is_err() {
                ctx.count("ddl-rejected", 1);
                if ctx.notes.len() < 3 {
                    ctx.notes.push(format!("ddl rejected: {}", crate::core::util::trunc(d, 160)));
                }
                ok = false;
                break;
            }
        }
        if !ok {
            continue;
        }
        let mut m = sch.model.clone();
        let actions: String = m.fks.iter().map(|f| format!("{}/{}", f.on_delete.tag(), f.on_update.tag())).collect::<Vec<_>>().join("+");
        let mut next = 0i64;
        let steps = rng.range(10, 34);
        for step in 0..steps {
            let (st, shape) = gen_stmt(&mut rng, &m, &mut next, step);
            let sql = st.sql(&m);
            let verdict = apply(&m, &st);
            let out = s.exec(&sql);
            ctx.eval();
            let fail = |ctx: &mut Ctx, s: &Session, sig: String, extra: serde_json::Value| {
                ctx.violation(case, sig, json!({"schema": sch.ddl, "actions": actions, "statement": sql, "detail": extra, "history": s.history_json()}));
            };
            if let Outcome::Panic(p) = &out {
                fail(ctx, &s, format!("panic:{}|{}", shape, panic_class(p)), json!(p));
                break;
            }
            let eng = match engine_state(&mut s, &m) {
                Ok(e) => e,
                Err(x) => {
                    fail(ctx, &s, format!("table-unreadable-after:{}|{}", sch.kind, shape), json!(x));
                    break;
                }
            };
            let acted: Vec<&str> = verdict.touched.iter().cloned().collect();
            let acted = if acted.is_empty() { "none".to_string() } else { acted.join("+") };
            // (3) rejected statements change nothing (checked first: a half-applied statement may
            // also leave orphans, which is the same defect)
            if out.is_err() && eng.canon() != m.canon() {
                fail(ctx, &s, format!("rejected-statement-changed-data:{}", shape), json!({"engine": show(&eng), "before": show(&m), "outcome": out.brief(), "orphans": eng.orphans().len()}));
                break;
            }
            // (1) no orphans, whatever happened
            let orphans = eng.orphans();
            if let Some((t, r, fi)) = orphans.first() {
                let fk = &m.fks[*fi];
                let act = if shape.starts_with("update-parent") { fk.on_update.tag() } else if shape == "delete" { fk.on_delete.tag() } else { "-" };
                fail(ctx, &s, format!("orphan-row:{}|{}|{}", sch.kind, shape, act), json!({"child_table": m.tabs[*t].name, "row": r.iter().map(|v| lit(*v)).collect::<Vec<_>>(), "engine": show(&eng), "before": show(&m), "outcome": out.brief()}));
                break;
            }
            if out.is_err() {
                // (4) statements the model accepts unambiguously must be accepted
                if verdict.accept.is_some() && !verdict.ambiguous {
                    fail(ctx, &s, format!("rejected-valid-statement:{}|{}|{}", sch.kind, shape, acted), json!({"before": show(&m), "outcome": out.brief()}));
                    break;
                }
                ctx.count(if verdict.accept.is_some() { "rejected-ambiguous" } else { "rejected-as-model" }, 1);
                ctx.nontrivial(format!("{}|{}|{}|rejected", sch.kind, shape, acted));
                continue;
            }
            match &verdict.accept {
                Some(exp) => {
                    // (2) the referential actions produced the specified changes
                    if eng.canon() != exp.canon() {
                        fail(ctx, &s, format!("wrong-state-after:{}|{}|{}", sch.kind, shape, acted), json!({"engine": show(&eng), "expected": show(exp), "before": show(&m)}));
                        break;
                    }
                    ctx.count("accepted-as-model", 1);
                    ctx.nontrivial(format!("{}|{}|{}|accepted", sch.kind, shape, acted));
                    for a in &verdict.touched {
                        ctx.count(&format!("action:{}", a), 1);
                    }
                    m = exp.clone();
                }
                None => {
                    // accepted although the model rejects: no orphan was found, so only duplicate
                    // keys / SET DEFAULT corner cases get here; follow the engine
                    ctx.count("accepted-model-rejects", 1);
                    if !verdict.ambiguous {
                        fail(ctx, &s, format!("accepted-statement-model-rejects:{}|{}|{}", sch.kind, shape, acted), json!({"engine": show(&eng), "before": show(&m)}));
                        break;
                    }
                    m.tabs = eng.tabs.clone();
                }
            }
        }
        ctx.sample(|| json!({"kind": sch.kind, "actions": actions, "history": s.history_json()}));
    }
}
