//! C26 — access control is complete and follows the GRANT/REVOKE history
//! (privilege-set model + canary scan + unchanged-state check).

use std::collections::BTreeSet;

use serde_json::json;

use crate::core::canon::{multiset_eq, show_rows, CRow, Canon};
use crate::core::ctx::Ctx;
use crate::core::rng::Rng;
use crate::core::session::{Outcome, Session};
use crate::core::util::panic_class;

#[derive(Clone, Copy, PartialEq, Eq, PartialOrd, Ord, Debug)]
enum Pr {
    Select,
    Insert,
    Update,
    Delete,
}

struct Stmt {
    sql: String,
    shape: &'static str,
    needs: Vec<(&'static str, Pr)>,
    reads: Vec<&'static str>,
    writes: Option<&'static str>,
}

fn rows_of(s: &mut Session, t: &str) -> Vec<CRow> {
    let (role, rec) = (s.db.get_current_role(), s.record);
    s.db.set_role(Some("ADMIN".to_string()));
    s.record = false;
    let r = s.query(&format!("SELECT id, a FROM {}", t)).unwrap_or_default();
    s.record = rec;
    s.db.set_role(Some(role));
    r
}

/// every cell value is unique to its table: t1 in 1000.., t2 in 2000.., t3 in 3000..
fn canary_of(v: &Canon) -> Option<&'static str> {
    match v {
        Canon::Int(i) if (1000..2000).contains(i) => Some("T1"),
        Canon::Int(i) if (2000..3000).contains(i) => Some("T2"),
        Canon::Int(i) if (4000..5000).contains(i) => Some("S2.T1"),
        _ => None,
    }
}

fn gen_stmt(rng: &mut Rng) -> Stmt {
    let k = 1100 + rng.range(0, 3);
    let mk = |sql: String, shape: &'static str, needs: Vec<(&'static str, Pr)>, reads: Vec<&'static str>, writes: Option<&'static str>| Stmt { sql, shape, needs, reads, writes };
    match rng.below(29) {
        // a table of the same name in another schema: nothing is ever granted on it, so whatever
        // the role holds on PUBLIC.T1 must not open it
        25 => mk("SELECT id, a FROM s2.t1".into(), "other-schema-scan", vec![("S2.T1", Pr::Select)], vec!["S2.T1"], None),
        26 => mk("SELECT x.id, y.id FROM t1 AS x INNER JOIN s2.t1 AS y ON x.id < y.id".into(), "other-schema-join", vec![("T1", Pr::Select), ("S2.T1", Pr::Select)], vec!["T1", "S2.T1"], None),
        27 => mk("SELECT t1.id FROM t1 WHERE t1.id + 3000 IN (SELECT y.id FROM s2.t1 AS y)".into(), "other-schema-in-subquery", vec![("T1", Pr::Select), ("S2.T1", Pr::Select)], vec!["T1", "S2.T1"], None),
        28 => mk("INSERT INTO t3 SELECT * FROM s2.t1".into(), "other-schema-insert-select", vec![("T3", Pr::Insert), ("S2.T1", Pr::Select)], vec!["S2.T1"], Some("T3")),
        0 => mk("SELECT id, a FROM t1".into(), "scan", vec![("T1", Pr::Select)], vec!["T1"], None),
        1 => mk(format!("SELECT id, a FROM t1 WHERE a = {}", k), "index-scan-eq", vec![("T1", Pr::Select)], vec!["T1"], None),
        2 => mk(format!("SELECT id FROM t1 WHERE a >= {} ORDER BY a", k), "index-scan-range-order", vec![("T1", Pr::Select)], vec!["T1"], None),
        3 => mk("SELECT x.id, y.id FROM t2 AS x INNER JOIN t1 AS y ON x.a - 1000 = y.a".into(), "join", vec![("T1", Pr::Select), ("T2", Pr::Select)], vec!["T1", "T2"], None),
        4 => mk("SELECT t2.id FROM t2 WHERE t2.a - 1000 IN (SELECT t1.a FROM t1)".into(), "in-subquery", vec![("T1", Pr::Select), ("T2", Pr::Select)], vec!["T1", "T2"], None),
        5 => mk("SELECT t2.id FROM t2 WHERE EXISTS (SELECT 1 FROM t1 WHERE t1.a = t2.a - 1000)".into(), "exists-subquery", vec![("T1", Pr::Select), ("T2", Pr::Select)], vec!["T1", "T2"], None),
        6 => mk("SELECT t2.id, (SELECT MAX(t1.a) FROM t1) FROM t2".into(), "scalar-subquery", vec![("T1", Pr::Select), ("T2", Pr::Select)], vec!["T1", "T2"], None),
        7 => mk("WITH w AS (SELECT id, a FROM t1) SELECT id, a FROM w".into(), "cte", vec![("T1", Pr::Select)], vec!["T1"], None),
        8 => mk("SELECT id FROM t2 UNION SELECT id FROM t1".into(), "set-operation", vec![("T1", Pr::Select), ("T2", Pr::Select)], vec!["T1", "T2"], None),
        9 => mk("SELECT id, a FROM (SELECT id, a FROM t1) AS d".into(), "derived-table", vec![("T1", Pr::Select)], vec!["T1"], None),
        10 => mk("INSERT INTO t3 SELECT * FROM t1".into(), "insert-select-star", vec![("T3", Pr::Insert), ("T1", Pr::Select)], vec!["T1"], Some("T3")),
        11 => mk("INSERT INTO t3 SELECT id + 0, a FROM t1 WHERE a > 0".into(), "insert-select-expr", vec![("T3", Pr::Insert), ("T1", Pr::Select)], vec!["T1"], Some("T3")),
        12 => mk("UPDATE t3 SET a = (SELECT MAX(t1.a) FROM t1) WHERE id = 3001".into(), "update-with-subquery", vec![("T3", Pr::Update), ("T1", Pr::Select)], vec!["T1"], Some("T3")),
        13 => mk("DELETE FROM t3 WHERE a + 0 IN (SELECT t1.a + 2000 FROM t1) OR id IN (SELECT t1.id FROM t1)".into(), "delete-with-subquery", vec![("T3", Pr::Delete), ("T1", Pr::Select)], vec!["T1"], Some("T3")),
        14 => mk(format!("INSERT INTO t3 VALUES ({}, {})", 3500 + rng.range(0, 400), 3900), "insert", vec![("T3", Pr::Insert)], vec![], Some("T3")),
        15 => mk("UPDATE t3 SET a = 3999 WHERE id = 3001".into(), "update", vec![("T3", Pr::Update)], vec![], Some("T3")),
        16 => mk("DELETE FROM t3 WHERE id = 3002".into(), "delete", vec![("T3", Pr::Delete)], vec![], Some("T3")),
        // unqualified names shared by both tables: these are not flattened into joins and reach the
        // expression evaluator's own subquery paths (index lookup, nested execution)
        17 => mk("SELECT id FROM t2 WHERE a - 1000 IN (SELECT a FROM t1)".into(), "in-subquery-unqualified", vec![("T1", Pr::Select), ("T2", Pr::Select)], vec!["T1", "T2"], None),
        18 => mk(format!("SELECT id FROM t2 WHERE id - 1000 IN (SELECT id FROM t1 WHERE a BETWEEN {} AND {})", k - 50, k + 50), "in-subquery-unqualified-filtered", vec![("T1", Pr::Select), ("T2", Pr::Select)], vec!["T1", "T2"], None),
        19 => mk("SELECT id FROM t2 WHERE EXISTS (SELECT 1 FROM t1 WHERE a = 1100)".into(), "exists-subquery-uncorrelated", vec![("T1", Pr::Select), ("T2", Pr::Select)], vec!["T1", "T2"], None),
        20 => mk("SELECT id, (SELECT MIN(a) FROM t1) FROM t2".into(), "scalar-subquery-unqualified", vec![("T1", Pr::Select), ("T2", Pr::Select)], vec!["T1", "T2"], None),
        // aggregate shortcuts that answer from table metadata instead of scanning
        21 => mk("SELECT COUNT(*) FROM t1".into(), "count-star", vec![("T1", Pr::Select)], vec![], None),
        22 => mk("SELECT MIN(a), MAX(a) FROM t1".into(), "min-max", vec![("T1", Pr::Select)], vec!["T1"], None),
        23 => mk("SELECT COUNT(*), SUM(a) FROM t1 WHERE a >= 0".into(), "columnar-aggregate", vec![("T1", Pr::Select)], vec![], None),
        _ => mk("SELECT id, a FROM v1".into(), "view", vec![], vec!["T1"], None),
    }
}

pub fn run(ctx: &mut Ctx) {
    let total = ctx.n(1500, 80_000);
    for case in ctx.my_cases(total) {
        ctx.begin_case(case);
        let mut rng = ctx.rng(case);
        let mut s = Session::new();
        s.must("CREATE TABLE t1 (id INTEGER, a INTEGER)");
        s.must("CREATE TABLE t2 (id INTEGER, a INTEGER)");
        s.must("CREATE TABLE t3 (id INTEGER, a INTEGER)");
        for i in 0..3 {
            s.must(&format!("INSERT INTO t1 VALUES ({}, {})", 1001 + i, 1100 + i));
            s.must(&format!("INSERT INTO t2 VALUES ({}, {})", 2001 + i, 2100 + i));
            s.must(&format!("INSERT INTO t3 VALUES ({}, {})", 3001 + i, 3100 + i));
        }
        s.must("CREATE SCHEMA s2");
        s.must("CREATE TABLE s2.t1 (id INTEGER, a INTEGER)");
        // (INSERT takes no qualified table name: S2.T1 is filled while S2 is the current schema)
        s.db.catalog.set_current_schema("S2").unwrap();
        for i in 0..3 {
            s.must(&format!("INSERT INTO t1 VALUES ({}, {})", 4001 + i, 4100 + i));
        }
        s.db.catalog.set_current_schema("public").unwrap();
        let indexed = rng.chance(2, 3);
        if indexed {
            s.must("CREATE INDEX ix_t1_a ON t1 (a)");
        }
        s.must("CREATE VIEW v1 AS SELECT id, a FROM t1");
        s.must("CREATE ROLE r");
        s.db.enable_security();
        let mut model: BTreeSet<(&'static str, Pr)> = BTreeSet::new();
        let mut view_select = false;
        for _ in 0..rng.range(4, 16) {
            if rng.chance(2, 5) {
                // privilege change by the admin
                s.db.set_role(Some("ADMIN".to_string()));
                let t = *rng.pick(&["T1", "T2", "T3", "V1"]);
                let (sql, changes): (String, Vec<Pr>) = match rng.below(6) {
                    0 => (format!("GRANT SELECT ON {} TO r", t), vec![Pr::Select]),
                    1 => (format!("GRANT INSERT, UPDATE ON {} TO r", t), vec![Pr::Insert, Pr::Update]),
                    2 => (format!("GRANT ALL PRIVILEGES ON {} TO r", t), vec![Pr::Select, Pr::Insert, Pr::Update, Pr::Delete]),
                    3 => (format!("GRANT SELECT, DELETE ON TABLE {} TO r WITH GRANT OPTION", t), vec![Pr::Select, Pr::Delete]),
                    4 => (format!("REVOKE SELECT ON {} FROM r", t), vec![Pr::Select]),
                    _ => (format!("REVOKE ALL PRIVILEGES ON {} FROM r", t), vec![Pr::Select, Pr::Insert, Pr::Update, Pr::Delete]),
                };
                let grant = sql.starts_with("GRANT");
                let o = s.exec(&sql);
                if let Outcome::Panic(p) = &o {
                    ctx.violation(case, format!("panic:grant-revoke:{}", panic_class(p)), json!({"sql": sql}));
                    break;
                }
                if o.is_err() {
                    ctx.count("grant_revoke_rejected", 1);
                    continue;
                }
                let tt: &'static str = match t { "T1" => "T1", "T2" => "T2", "T3" => "T3", _ => "V1" };
                for p in changes {
                    if tt == "V1" {
                        if p == Pr::Select {
                            view_select = grant;
                        }
                    } else if grant {
                        model.insert((tt, p));
                    } else {
                        model.remove(&(tt, p));
                    }
                }
                continue;
            }
            // statement by the non-admin role
            let st = gen_stmt(&mut rng);
            s.db.set_role(Some("R".to_string()));
            let before: Vec<Vec<CRow>> = ["t1", "t2", "t3"].iter().map(|t| rows_of(&mut s, t)).collect();
            ctx.eval();
            let o = s.exec(&st.sql);
            let after: Vec<Vec<CRow>> = ["t1", "t2", "t3"].iter().map(|t| rows_of(&mut s, t)).collect();
            let hist = || json!(s.history.iter().filter(|e| !e.sql.starts_with("INSERT INTO t") || e.sql.contains("SELECT")).map(|e| format!("{}  -- {}", e.sql, crate::core::util::trunc(&e.outcome, 40))).collect::<Vec<_>>());
            if let Outcome::Panic(p) = &o {
                ctx.violation(case, format!("panic:{}:{}", st.shape, panic_class(p)), json!({"sql": st.sql, "history": hist()}));
                break;
            }
            let missing: Vec<String> = st.needs.iter().filter(|n| !model.contains(n)).map(|n| format!("{:?} on {}", n.1, n.0)).collect();
            let lacks_read: Vec<&str> = st.reads.iter().filter(|t| !model.contains(&(**t, Pr::Select))).cloned().collect();
            let view_case = st.shape == "view";
            let state = format!("{}|idx={}", st.shape, indexed);
            let changed = (0..3).any(|i| !multiset_eq(&before[i], &after[i], 0.0));
            if !o.is_err() {
                // succeeded
                let leak_allowed = if view_case { view_select || model.contains(&("T1", Pr::Select)) } else { lacks_read.is_empty() };
                if !leak_allowed {
                    // canaries of unreadable tables in the output, or in a table the role can read afterwards
                    let mut leaked = false;
                    if let Outcome::Rows(rows) = &o {
                        leaked = rows.iter().flatten().any(|v| canary_of(v).map_or(false, |t| lacks_read.contains(&t) || view_case));
                    }
                    if st.writes.is_some() {
                        leaked = leaked || after[2].iter().flatten().any(|v| canary_of(v).map_or(false, |t| lacks_read.contains(&t)));
                    }
                    ctx.violation(case, { let _ = leaked; format!("read-without-select:{}", st.shape) }, json!({"sql": st.sql, "canary_of_unreadable_table_visible": leaked, "role_privileges": format!("{:?}", model), "missing": missing, "outcome": o.brief(), "t3_after": show_rows(&after[2], 12), "history": hist()}));
                    break;
                }
                if !view_case && !missing.is_empty() {
                    ctx.violation(case, format!("write-without-privilege:{}", st.shape), json!({"sql": st.sql, "role_privileges": format!("{:?}", model), "missing": missing, "outcome": o.brief(), "history": hist()}));
                    break;
                }
                ctx.nontrivial(format!("allowed|{}", state));
            } else {
                let msg = o.brief();
                let denied = msg.to_lowercase().contains("permission") || msg.to_lowercase().contains("privilege") || msg.to_lowercase().contains("denied");
                if changed {
                    ctx.violation(case, format!("failed-statement-changed-data:{}", st.shape), json!({"sql": st.sql, "error": msg, "t3_before": show_rows(&before[2], 12), "t3_after": show_rows(&after[2], 12), "history": hist()}));
                    break;
                }
                if denied && missing.is_empty() && !view_case {
                    ctx.violation(case, format!("denied-despite-privileges:{}", st.shape), json!({"sql": st.sql, "error": msg, "role_privileges": format!("{:?}", model), "history": hist()}));
                    break;
                }
                if denied {
                    ctx.nontrivial(format!("denied|{}", state));
                } else {
                    ctx.count("other_error", 1);
                }
            }
        }
        let n = s.history.len();
        ctx.sample(|| json!({"steps": n, "tail": s.history.iter().rev().take(5).map(|e| format!("{} -- {}", e.sql, crate::core::util::trunc(&e.outcome, 40))).collect::<Vec<_>>() }));
    }
}
