//! C08 — ORDER BY / LIMIT / OFFSET / DISTINCT return correct sequences (harness sort oracle).

use serde_json::json;

use crate::checks::c02::sorted_by;
use crate::core::canon::{multiset_eq, row_cmp, rows_eq, show_rows, CRow, Canon};
use crate::core::ctx::Ctx;
use crate::core::rng::Rng;
use crate::core::session::{Outcome, Session};
use crate::core::util::panic_class;

fn key_cmp(a: &Canon, b: &Canon, desc: bool) -> std::cmp::Ordering {
    use std::cmp::Ordering::*;
    match (a.is_null(), b.is_null()) {
        (true, true) => Equal,
        (true, false) => Greater,
        (false, true) => Less,
        _ => {
            let c = a.total_cmp(b);
            if desc { c.reverse() } else { c }
        }
    }
}

struct Key {
    /// how the key is written in ORDER BY (expression, alias or position)
    written: String,
    /// the underlying expression (appended to the select list for the oracle)
    expr: String,
    desc: bool,
    form: &'static str,
}

pub fn run(ctx: &mut Ctx) {
    let total = ctx.n(900, 60_000);
    for case in ctx.my_cases(total) {
        ctx.begin_case(case);
        let mut rng = ctx.rng(case);
        one_case(ctx, case, &mut rng);
    }
}

fn one_case(ctx: &mut Ctx, case: u64, rng: &mut Rng) {
    let mut s = Session::new();
    s.must("CREATE TABLE t (id INTEGER, a INTEGER, b INTEGER, c VARCHAR(10), d DOUBLE PRECISION)");
    let n = *rng.pick(&[0i64, 1, 2, 5, 9, 14]);
    let null_pct = *rng.pick(&[0u64, 20, 50]);
    for i in 1..=n {
        let (ra, rb, rc, rd) = (rng.range(-2, 3), rng.range(0, 2), rng.usize(6), rng.usize(5));
        let mut v = |val: String| if rng.chance(null_pct, 100) { "NULL".to_string() } else { val };
        let a = v(ra.to_string());
        let b = v(rb.to_string());
        let c = v(format!("'{}'", ["a", "b", "ab", "B", "", "zz"][rc]));
        let d = v(["0.5", "1.5", "-1.25", "2.0", "1e3"][rd].to_string());
        s.must(&format!("INSERT INTO t SELECT {}, {}, {}, {}, {}", i, a, b, c, d));
    }
    let index = match rng.below(5) {
        0 => Some("CREATE INDEX ix ON t (a)"),
        1 => Some("CREATE INDEX ix ON t (c)"),
        2 => Some("CREATE INDEX ix ON t (a, b)"),
        3 => Some("CREATE INDEX ix ON t (a DESC)"),
        _ => None,
    };
    if let Some(ix) = index {
        let _ = s.exec(ix);
    }
    for _ in 0..10 {
        if rng.chance(1, 5) {
            distinct_case(ctx, case, rng, &mut s, index);
        } else {
            order_case(ctx, case, rng, &mut s, index, n as usize);
        }
    }
}

fn order_case(ctx: &mut Ctx, case: u64, rng: &mut Rng, s: &mut Session, index: Option<&str>, n: usize) {
    // select items (with optional aliases)
    let item_pool = ["a", "b", "c", "d", "a + b", "a * 2", "id", "- a", "COALESCE(a, 0)"];
    let mut items: Vec<(String, Option<String>)> = Vec::new();
    for i in 0..rng.range(1, 3) {
        let e = rng.pick(&item_pool).to_string();
        let alias = if rng.chance(1, 3) { Some(format!("k{}", i)) } else { None };
        items.push((e, alias));
    }
    let mut keys: Vec<Key> = Vec::new();
    for _ in 0..rng.range(1, 3) {
        let desc = rng.chance(2, 5);
        let k = match rng.below(4) {
            0 => {
                let p = rng.usize(items.len());
                Key { written: (p + 1).to_string(), expr: items[p].0.clone(), desc, form: "position" }
            }
            1 => {
                let with_alias: Vec<&(String, Option<String>)> = items.iter().filter(|i| i.1.is_some()).collect();
                if with_alias.is_empty() {
                    let e = rng.pick(&item_pool).to_string();
                    Key { written: e.clone(), expr: e, desc, form: "expr" }
                } else {
                    let it = with_alias[rng.usize(with_alias.len())];
                    Key { written: it.1.clone().unwrap(), expr: it.0.clone(), desc, form: "alias" }
                }
            }
            2 => {
                let e = rng.pick(&["a", "b", "c", "d", "id"]).to_string();
                Key { written: e.clone(), expr: e, desc, form: "column" }
            }
            _ => {
                let e = rng.pick(&["a + b", "- a", "a * b", "COALESCE(b, 9)", "d * 2"]).to_string();
                Key { written: e.clone(), expr: e, desc, form: "expr" }
            }
        };
        keys.push(k);
    }
    // often order exactly by the indexed columns, so that the order can come straight from the index
    if let Some(ix) = index {
        if rng.chance(1, 3) {
            let cols = ix.split('(').nth(1).unwrap_or("").trim_end_matches(')');
            keys = cols
                .split(',')
                .map(|c| {
                    let c = c.trim();
                    let desc = c.ends_with(" DESC");
                    let name = c.trim_end_matches(" DESC").to_string();
                    Key { written: name.clone(), expr: name, desc, form: "index-columns" }
                })
                .collect();
        }
    }
    let where_ = if rng.chance(1, 3) { format!(" WHERE {}", rng.pick(&["a >= 0", "b = 1", "c IS NOT NULL", "a IS NULL OR b > 0", "id > 2"])) } else { String::new() };
    let limit: Option<usize> = if rng.chance(1, 2) { Some(*rng.pick(&[0usize, 1, 2, n.saturating_sub(1), n, n + 1, 1000])) } else { None };
    let offset: Option<usize> = if rng.chance(1, 3) { Some(*rng.pick(&[0usize, 1, 2, n.saturating_sub(1), n, n + 3])) } else { None };
    let item_sql: Vec<String> = items.iter().map(|(e, a)| match a { Some(a) => format!("{} AS {}", e, a), None => e.clone() }).collect();
    let key_cols: Vec<String> = keys.iter().enumerate().map(|(i, k)| format!("{} AS zk{}", k.expr, i)).collect();
    let order_sql = keys.iter().map(|k| format!("{}{}", k.written, if k.desc { " DESC" } else { "" })).collect::<Vec<_>>().join(", ");
    let tail = format!("{}{}", limit.map(|l| format!(" LIMIT {}", l)).unwrap_or_default(), offset.map(|o| format!(" OFFSET {}", o)).unwrap_or_default());
    // the query under test, with the key expressions appended so the oracle sorts values it was given
    let q_test = format!("SELECT {}, {} FROM t{} ORDER BY {}{}", item_sql.join(", "), key_cols.join(", "), where_, order_sql, tail);
    let q_plain = format!("SELECT {} FROM t{} ORDER BY {}{}", item_sql.join(", "), where_, order_sql, tail);
    let q_unordered = format!("SELECT {}, {} FROM t{}", item_sql.join(", "), key_cols.join(", "), where_);
    ctx.eval();
    let ni = items.len();
    let key_idx: Vec<(usize, bool)> = keys.iter().enumerate().map(|(i, k)| (ni + i, k.desc)).collect();
    let forms: Vec<&str> = { let mut f: Vec<&str> = keys.iter().map(|k| k.form).collect(); f.sort(); f.dedup(); f };
    let shape = format!("{}|desc={}|keys={}|limit={}|offset={}|idx={}", forms.join("+"), keys.iter().any(|k| k.desc), keys.len(), match limit { None => "none".to_string(), Some(0) => "0".into(), Some(l) if l >= n + 1 => "beyond".into(), Some(l) if l == n => "n".into(), _ => "mid".into() }, match offset { None => "none".to_string(), Some(0) => "0".into(), Some(o) if o >= n => "beyond".into(), _ => "mid".into() }, index.map(|i| i.split('(').nth(1).unwrap_or("").trim_end_matches(')')).unwrap_or("none"));
    let (ot, ou, op) = (s.exec(&q_test), s.exec(&q_unordered), s.exec(&q_plain));
    let used_index = s.hit("index_scan");
    for o in [&ot, &ou, &op] {
        if let Outcome::Panic(p) = o {
            ctx.violation(case, format!("panic:{}", panic_class(p)), json!({"sql": q_test, "history": s.history_json()}));
            return;
        }
    }
    let (Outcome::Rows(got), Outcome::Rows(all)) = (&ot, &ou) else {
        ctx.count("query_error", 1);
        if ctx.notes.len() < 3 {
            ctx.notes.push(format!("example error: {} -> {} / {}", q_test, ot.brief(), ou.brief()));
        }
        return;
    };
    // oracle: stable sort of the unordered rows by the key columns (NULLs last in both directions)
    let mut want = all.clone();
    want.sort_by(|x, y| {
        for (i, desc) in &key_idx {
            let c = key_cmp(&x[*i], &y[*i], *desc);
            if c != std::cmp::Ordering::Equal {
                return c;
            }
        }
        std::cmp::Ordering::Equal
    });
    let off = offset.unwrap_or(0).min(want.len());
    let mut slice: Vec<CRow> = want[off..].to_vec();
    if let Some(l) = limit {
        slice.truncate(l);
    }
    let detail = |what: &str, s: &Session| json!({"what": what, "sql": q_test, "unordered_sql": q_unordered, "got": show_rows(got, 16), "expected_one_valid_answer": show_rows(&slice, 16), "index": index, "index_scan_used": used_index, "history": s.history.iter().filter(|e| e.sql.starts_with("INSERT") || e.sql.starts_with("CREATE")).map(|e| e.sql.clone()).collect::<Vec<_>>()});
    let fail = |ctx: &mut Ctx, kind: &str, s: &Session| ctx.violation(case, format!("{}|{}", kind, shape), detail(kind, s));
    if got.len() != slice.len() {
        fail(ctx, "wrong-row-count", s);
        return;
    }
    if !sorted_by(got, &key_idx) {
        fail(ctx, "not-sorted", s);
        return;
    }
    // key sequence must equal the key sequence of the valid slice
    let keyseq = |rows: &Vec<CRow>| -> Vec<CRow> { rows.iter().map(|r| key_idx.iter().map(|(i, _)| r[*i].clone()).collect()).collect() };
    if !crate::core::canon::seq_eq(&keyseq(got), &keyseq(&slice), 1e-9) {
        fail(ctx, "wrong-slice-keys", s);
        return;
    }
    // every returned row must exist in the unordered result (sub-multiset)
    let mut pool: Vec<&CRow> = all.iter().collect();
    for r in got {
        match pool.iter().position(|q| rows_eq(q, r, 1e-9)) {
            Some(p) => {
                pool.remove(p);
            }
            None => {
                fail(ctx, "row-not-in-unordered-result", s);
                return;
            }
        }
    }
    if limit.is_none() && offset.is_none() && !multiset_eq(got, all, 1e-9) {
        fail(ctx, "not-a-permutation", s);
        return;
    }
    // the query as a user writes it (no appended keys) must return the same rows (ties aside)
    if let Outcome::Rows(plain) = &op {
        let proj: Vec<CRow> = got.iter().map(|r| r[..ni].to_vec()).collect();
        let tie_free = want.windows(2).all(|w| key_idx.iter().any(|(i, d)| key_cmp(&w[0][*i], &w[1][*i], *d) != std::cmp::Ordering::Equal));
        let same = if tie_free { crate::core::canon::seq_eq(plain, &proj, 1e-9) } else { plain.len() == proj.len() && (limit.is_some() || offset.is_some() || multiset_eq(plain, &proj, 1e-9)) };
        if !same {
            ctx.violation(case, format!("plain-form-differs|{}", shape), json!({"plain_sql": q_plain, "plain": show_rows(plain, 16), "with_keys_appended": show_rows(&proj, 16), "index": index, "history": s.history.iter().filter(|e| e.sql.starts_with("INSERT") || e.sql.starts_with("CREATE")).map(|e| e.sql.clone()).collect::<Vec<_>>()}));
            return;
        }
    } else if let Outcome::Err(e) = &op {
        ctx.count("plain_form_error", 1);
        if ctx.notes.len() < 3 {
            ctx.notes.push(format!("plain form error: {} -> {}", q_plain, e));
        }
    }
    ctx.nontrivial(format!("{}|{}", shape, if used_index { "index" } else { "sort" }));
    let q = q_test.clone();
    ctx.sample(|| json!({"sql": q, "rows": got.len(), "order_from": if used_index { "index scan" } else { "sort" }}));
}

fn distinct_case(ctx: &mut Ctx, case: u64, rng: &mut Rng, s: &mut Session, index: Option<&str>) {
    let cols = *rng.pick(&["a", "b", "c", "a, b", "b, c", "a + b", "d", "a, b, c", "COALESCE(a, 0), b", "*", "b, a"]);
    let where_ = if rng.chance(1, 3) { " WHERE a >= 0" } else { "" };
    // ORDER BY by position, or by column names that need not be in the select list (the sort then
    // leaves equal output rows non-adjacent: DISTINCT must still return each row once)
    let order = match rng.below(9) {
        0..=2 => " ORDER BY 1",
        3 => " ORDER BY a, c",
        4 => " ORDER BY c",
        5 => " ORDER BY d, b",
        _ => "",
    };
    let limit = if order == " ORDER BY 1" && cols != "*" && rng.chance(1, 2) { format!(" LIMIT {}", rng.range(0, 4)) } else { String::new() };
    let qd = format!("SELECT DISTINCT {} FROM t{}{}{}", cols, where_, order, limit);
    let qa = format!("SELECT {} FROM t{}", cols, where_);
    ctx.eval();
    let (od, oa) = (s.exec(&qd), s.exec(&qa));
    let (Outcome::Rows(d), Outcome::Rows(a)) = (&od, &oa) else {
        if let Outcome::Panic(p) = &od {
            ctx.violation(case, format!("panic:{}", panic_class(p)), json!({"sql": qd}));
        }
        ctx.count("query_error", 1);
        return;
    };
    let mut want = a.clone();
    want.sort_by(row_cmp);
    want.dedup_by(|x, y| rows_eq(x, y, 0.0));
    let hist = || s.history.iter().filter(|e| e.sql.starts_with("INSERT") || e.sql.starts_with("CREATE")).map(|e| e.sql.clone()).collect::<Vec<_>>();
    let shape = format!("distinct|cols={}|{}{}", if cols == "*" { "star".to_string() } else { (cols.matches(',').count() + 1).to_string() }, if order.is_empty() { "" } else if order == " ORDER BY 1" { "order" } else { "order-by-names" }, if limit.is_empty() { "" } else { "+limit" });
    // no row twice
    let mut dd = d.clone();
    dd.sort_by(row_cmp);
    let before = dd.len();
    dd.dedup_by(|x, y| rows_eq(x, y, 0.0));
    if dd.len() != before {
        ctx.violation(case, format!("distinct-returned-a-row-twice|{}", shape), json!({"sql": qd, "got": show_rows(d, 16), "history": hist(), "index": index}));
        return;
    }
    if limit.is_empty() {
        if !multiset_eq(d, &want, 0.0) {
            ctx.violation(case, format!("distinct-wrong-rows|{}", shape), json!({"sql": qd, "got": show_rows(d, 16), "expected": show_rows(&want, 16), "history": hist(), "index": index}));
            return;
        }
    } else {
        // DISTINCT applies before LIMIT: the first column sequence must equal the first values of the sorted distinct set
        let l: usize = limit.trim().trim_start_matches("LIMIT ").parse().unwrap_or(0);
        let mut sorted = want.clone();
        sorted.sort_by(|x, y| key_cmp(&x[0], &y[0], false));
        let exp: Vec<Canon> = sorted.iter().take(l).map(|r| r[0].clone()).collect();
        let gotk: Vec<Canon> = d.iter().map(|r| r[0].clone()).collect();
        if exp.len() != gotk.len() || exp.iter().zip(gotk.iter()).any(|(x, y)| !x.approx_eq(y, 1e-9)) {
            ctx.violation(case, format!("distinct-limit-wrong|{}", shape), json!({"sql": qd, "got": show_rows(d, 16), "expected_first_column": exp.iter().map(|c| c.show()).collect::<Vec<_>>(), "history": hist(), "index": index}));
            return;
        }
    }
    ctx.nontrivial(format!("{}|rows{}", shape, want.len().min(4)));
}
