//! C33 — schema changes keep catalog, storage and indexes consistent.
//! A model of the schema (tables, columns, rows, indexes, constraints) follows a random DDL/DML
//! history with name reuse and identifier-case variants; after every statement the catalog listing,
//! the stored tables, both index registries and a battery of probe queries are compared with it.

use std::collections::{BTreeMap, BTreeSet};

use serde_json::json;

use crate::core::canon::Canon;
use crate::core::ctx::Ctx;
use crate::core::rng::Rng;
use crate::core::session::{Outcome, Session};
use crate::core::util::panic_class;

type V = Option<i64>;

#[derive(Clone, Debug)]
struct Tab {
    cols: Vec<String>,
    rows: Vec<Vec<V>>,
    /// named constraints: name -> Some(col) for UNIQUE(col), None for CHECK
    constraints: BTreeMap<String, Option<String>>,
    /// columns declared with a DEFAULT (the engine stores the default for an explicit NULL)
    defaulted: BTreeSet<String>,
}

#[derive(Clone, Debug, PartialEq)]
struct Ix {
    table: String,
    cols: Vec<String>,
    unique: bool,
}

#[derive(Clone, Default)]
struct Model {
    tabs: BTreeMap<String, Tab>,
    ixs: BTreeMap<String, Ix>,
}

/// SQL token -> stored name (regular identifiers fold to upper case, delimited keep their case)
fn stored(tok: &str) -> String {
    if tok.starts_with('"') {
        tok.trim_matches('"').to_string()
    } else {
        tok.to_uppercase()
    }
}

impl Model {
    fn unique_cols(&self, t: &str) -> Vec<String> {
        let mut u: Vec<String> = self.ixs.values().filter(|i| i.table == t && i.unique && i.cols.len() == 1).map(|i| i.cols[0].clone()).collect();
        if let Some(tab) = self.tabs.get(t) {
            u.extend(tab.constraints.values().flatten().cloned());
        }
        u
    }
    fn has_case_sibling(&self) -> bool {
        let mut seen = BTreeSet::new();
        self.tabs.keys().any(|k| !seen.insert(k.to_uppercase())) || {
            let mut s2 = BTreeSet::new();
            self.ixs.keys().any(|k| !s2.insert(k.to_uppercase()))
        }
    }
}

enum Expect {
    /// must succeed and lead to this model
    Accept(Model),
    /// must be rejected
    Reject,
    /// either: rejected (state unchanged) or accepted leading to this model
    Either(Model),
}

struct Stmt {
    sql: String,
    shape: &'static str,
    expect: Expect,
}

const TABLE_TOKENS: [&str; 5] = ["t1", "T1", "t2", "\"t1\"", "t2"];
const INDEX_TOKENS: [&str; 5] = ["ix1", "IX1", "ix2", "\"ix1\"", "ix3"];

fn gen_stmt(rng: &mut Rng, m: &Model, next_id: &mut i64, next_col: &mut i64) -> Stmt {
    let ttok = *rng.pick(&TABLE_TOKENS);
    let tname = stored(ttok);
    let exists = m.tabs.contains_key(&tname);
    // a name that differs from an existing one only by case: engines legitimately differ in
    // whether they treat it as the same object
    let table_sibling = m.tabs.keys().any(|k| *k != tname && k.to_uppercase() == tname.to_uppercase());
    let regular = !ttok.starts_with('"');
    let mk = |sql: String, shape: &'static str, expect: Expect| Stmt { sql, shape, expect };
    match rng.below(30) {
        0..=3 => {
            let extra = rng.chance(1, 3);
            // (a bounded text column, always NULL, gives prefix indexes something to stand on)
            let text = rng.chance(1, 3);
            let sql = format!("CREATE TABLE {} (id INTEGER PRIMARY KEY, a INTEGER, b INTEGER{}{})", ttok, if extra { ", c INTEGER" } else { "" }, if text { ", s VARCHAR(8)" } else { "" });
            if exists {
                return mk(sql, "create-table-existing", Expect::Reject);
            }
            let mut n = m.clone();
            let mut cols = vec!["ID".to_string(), "A".to_string(), "B".to_string()];
            if extra {
                cols.push("C".to_string());
            }
            if text {
                cols.push("S".to_string());
            }
            n.tabs.insert(tname.clone(), Tab { cols, rows: vec![], constraints: BTreeMap::new(), defaulted: BTreeSet::new() });
            mk(sql, if table_sibling { "create-table-case-sibling" } else { "create-table" }, if table_sibling { Expect::Either(n) } else { Expect::Accept(n) })
        }
        4 | 5 => {
            let sql = format!("DROP TABLE {}", ttok);
            if !exists {
                return mk(sql, "drop-table-missing", if table_sibling { Expect::Either(m.clone()) } else { Expect::Reject });
            }
            let mut n = m.clone();
            n.tabs.remove(&tname);
            n.ixs.retain(|_, i| i.table != tname);
            mk(sql, "drop-table", Expect::Accept(n))
        }
        6..=9 => {
            let itok = *rng.pick(&INDEX_TOKENS);
            let iname = stored(itok);
            let unique = rng.chance(1, 3);
            let tab = m.tabs.get(&tname);
            let col = match tab {
                Some(t) if t.cols.len() > 1 => t.cols[1 + rng.usize(t.cols.len() - 1)].clone(),
                _ => "A".to_string(),
            };
            let two = rng.chance(1, 5) && tab.map_or(false, |t| t.cols.contains(&"B".to_string()) && col != "B");
            let cols: Vec<String> = if two { vec![col.clone(), "B".to_string()] } else { vec![col.clone()] };
            // UNIQUE only over data without duplicates (duplicate handling belongs to C10)
            let dup_free = tab.map_or(true, |t| {
                let ci: Vec<usize> = cols.iter().filter_map(|c| t.cols.iter().position(|x| x == c)).collect();
                let mut seen = BTreeSet::new();
                t.rows.iter().all(|r| {
                    let k: Vec<V> = ci.iter().map(|&i| r[i]).collect();
                    k.iter().any(|v| v.is_none()) || seen.insert(k)
                })
            });
            let unique = unique && dup_free && !two;
            // prefix key parts on the text column: within the declared width, or beyond it (engines
            // differ on whether the latter is an error; either way the registries must agree)
            let prefix: Option<i64> = if cols == ["S"] && rng.chance(3, 4) { Some(*rng.pick(&[4i64, 8, 9, 64, 300])) } else { None };
            let keys = match prefix {
                Some(p) => format!("s({})", p),
                None => cols.join(", "),
            };
            let sql = format!("CREATE {}INDEX {} ON {} ({})", if unique { "UNIQUE " } else { "" }, itok, ttok, keys);
            if !exists {
                return mk(sql, "create-index-missing-table", if table_sibling { Expect::Either(m.clone()) } else { Expect::Reject });
            }
            if !cols.iter().all(|c| tab.unwrap().cols.contains(c)) {
                return mk(sql, "create-index-missing-column", Expect::Reject);
            }
            if let Some(old) = m.ixs.get(&iname) {
                // same name on another table: engines differ on the scope of index names
                return mk(sql, "create-index-existing", if old.table == tname { Expect::Reject } else { Expect::Either(m.clone()) });
            }
            let sibling = m.ixs.keys().any(|k| k.to_uppercase() == iname.to_uppercase());
            let mut n = m.clone();
            n.ixs.insert(iname, Ix { table: tname.clone(), cols, unique });
            let shape = match (prefix, unique) {
                (Some(p), _) if p > 8 => "create-index-prefix-beyond-width",
                (Some(_), _) => "create-index-prefix",
                (None, true) => "create-unique-index",
                (None, false) => "create-index",
            };
            mk(sql, shape, if sibling || table_sibling || prefix.map_or(false, |p| p > 8) { Expect::Either(n) } else { Expect::Accept(n) })
        }
        10 | 11 => {
            let itok = *rng.pick(&INDEX_TOKENS);
            let iname = stored(itok);
            let sql = format!("DROP INDEX {}", itok);
            let sibling = m.ixs.keys().any(|k| *k != iname && k.to_uppercase() == iname.to_uppercase());
            if !m.ixs.contains_key(&iname) {
                // index names are matched ignoring case by the engine (a pinned unit test demands
                // it): the case sibling may be the one that goes - from both registries
                let mut n = m.clone();
                n.ixs.retain(|k, _| k.to_uppercase() != iname.to_uppercase());
                return mk(sql, "drop-index-missing", if sibling { Expect::Either(n) } else { Expect::Reject });
            }
            let mut n = m.clone();
            n.ixs.remove(&iname);
            mk(sql, "drop-index", Expect::Accept(n))
        }
        12 | 13 => {
            *next_col += 1;
            let c = format!("X{}", *next_col % 4);
            let default = if rng.chance(1, 2) { Some(rng.range(1, 9)) } else { None };
            let sql = format!("ALTER TABLE {} ADD COLUMN {} INTEGER{}", ttok, c.to_lowercase(), default.map_or(String::new(), |d| format!(" DEFAULT {}", d)));
            match m.tabs.get(&tname) {
                None => mk(sql, "add-column-missing-table", if table_sibling { Expect::Either(m.clone()) } else { Expect::Reject }),
                Some(t) if t.cols.contains(&c) => mk(sql, "add-column-existing", Expect::Reject),
                Some(_) => {
                    let mut n = m.clone();
                    let t = n.tabs.get_mut(&tname).unwrap();
                    if default.is_some() {
                        t.defaulted.insert(c.clone());
                    }
                    t.cols.push(c);
                    for r in t.rows.iter_mut() {
                        r.push(default);
                    }
                    mk(sql, if default.is_some() { "add-column-default" } else { "add-column" }, Expect::Accept(n))
                }
            }
        }
        14 | 15 => {
            let tab = m.tabs.get(&tname);
            let col = match tab {
                Some(t) if t.cols.len() > 1 => t.cols[1 + rng.usize(t.cols.len() - 1)].clone(),
                _ => "B".to_string(),
            };
            let sql = format!("ALTER TABLE {} DROP COLUMN {}", ttok, col.to_lowercase());
            match tab {
                None => mk(sql, "drop-column-missing-table", if table_sibling { Expect::Either(m.clone()) } else { Expect::Reject }),
                Some(t) if !t.cols.contains(&col) => mk(sql, "drop-column-missing", Expect::Reject),
                Some(t) => {
                    let used = m.ixs.values().any(|i| i.table == tname && i.cols.contains(&col)) || t.constraints.values().any(|c| c.as_deref() == Some(&col)) || (col == "A" && t.constraints.values().any(|c| c.is_none()));
                    let mut n = m.clone();
                    let t = n.tabs.get_mut(&tname).unwrap();
                    let ci = t.cols.iter().position(|c| *c == col).unwrap();
                    t.cols.remove(ci);
                    t.defaulted.remove(&col);
                    for r in t.rows.iter_mut() {
                        r.remove(ci);
                    }
                    t.constraints.retain(|_, c| c.as_deref() != Some(&col) && !(col == "A" && c.is_none()));
                    n.ixs.retain(|_, i| !(i.table == tname && i.cols.contains(&col)));
                    // dropping a column that an index or constraint uses: reject or drop dependents
                    if used {
                        mk(sql, "drop-column-in-use", Expect::Either(n))
                    } else {
                        mk(sql, "drop-column", Expect::Accept(n))
                    }
                }
            }
        }
        16 => {
            let cname = format!("K{}", rng.below(2));
            let tab = m.tabs.get(&tname);
            let unique = rng.chance(1, 2);
            let sql = if unique { format!("ALTER TABLE {} ADD CONSTRAINT {} UNIQUE (a)", ttok, cname.to_lowercase()) } else { format!("ALTER TABLE {} ADD CONSTRAINT {} CHECK (a >= 0)", ttok, cname.to_lowercase()) };
            match tab {
                None => mk(sql, "add-constraint-missing-table", if table_sibling { Expect::Either(m.clone()) } else { Expect::Reject }),
                // (a constraint over a missing column is accepted by the engine and poisons later
                // inserts: a validation gap, not a consistency question, so it is not issued)
                Some(t) if !t.cols.contains(&"A".to_string()) => mk(format!("SELECT COUNT(*) FROM {}", ttok), "select", Expect::Accept(m.clone())),
                Some(t) => {
                    let ai = t.cols.iter().position(|c| c == "A").unwrap();
                    let mut seen = BTreeSet::new();
                    let dup_free = t.rows.iter().all(|r| r[ai].is_none() || seen.insert(r[ai]));
                    if t.constraints.contains_key(&cname) {
                        // UNIQUE constraints are stored without their name, so a second constraint
                        // of the same name is not detectable: not issued
                        return mk(format!("SELECT COUNT(*) FROM {}", ttok), "select", Expect::Accept(m.clone()));
                    }
                    if unique && !dup_free {
                        let mut n = m.clone();
                        n.tabs.get_mut(&tname).unwrap().constraints.insert(cname, Some("A".to_string()));
                        return mk(sql, "add-unique-over-duplicates", Expect::Either(n));
                    }
                    let mut n = m.clone();
                    n.tabs.get_mut(&tname).unwrap().constraints.insert(cname, if unique { Some("A".to_string()) } else { None });
                    mk(sql, if unique { "add-unique-constraint" } else { "add-check-constraint" }, Expect::Accept(n))
                }
            }
        }
        17 => {
            let cname = format!("K{}", rng.below(2));
            let sql = format!("ALTER TABLE {} DROP CONSTRAINT {}", ttok, cname.to_lowercase());
            match m.tabs.get(&tname) {
                Some(t) if t.constraints.contains_key(&cname) => {
                    let mut n = m.clone();
                    // UNIQUE constraints lose their name in the catalog: dropping one by name is
                    // a functional gap, not an inconsistency
                    let by_name_unsupported = t.constraints[&cname].is_some();
                    n.tabs.get_mut(&tname).unwrap().constraints.remove(&cname);
                    mk(sql, "drop-constraint", if by_name_unsupported { Expect::Either(n) } else { Expect::Accept(n) })
                }
                Some(_) => mk(sql, "drop-constraint-missing", Expect::Reject),
                None => mk(sql, "drop-constraint-missing-table", if table_sibling { Expect::Either(m.clone()) } else { Expect::Reject }),
            }
        }
        18..=23 if regular => {
            // INSERT with all columns
            *next_id += 1;
            let id = *next_id;
            let tab = m.tabs.get(&tname);
            let ncols = tab.map_or(3, |t| t.cols.len());
            let mut row: Vec<V> = vec![Some(id)];
            for ci in 1..ncols {
                let defaulted = tab.map_or(false, |t| t.defaulted.contains(&t.cols[ci]));
                let text = tab.map_or(false, |t| t.cols[ci] == "S");
                row.push(if text || (!defaulted && rng.chance(1, 10)) { None } else { Some(rng.range(0, 6)) });
            }
            let sql = format!("INSERT INTO {} VALUES ({})", ttok, row.iter().map(|v| v.map_or("NULL".to_string(), |i| i.to_string())).collect::<Vec<_>>().join(", "));
            match tab {
                None => mk(sql, "insert-missing-table", if table_sibling { Expect::Either(m.clone()) } else { Expect::Reject }),
                Some(t) => {
                    let dup = m.unique_cols(&tname).iter().any(|c| {
                        let ci = t.cols.iter().position(|x| x == c).unwrap();
                        row[ci].is_some() && t.rows.iter().any(|r| r[ci] == row[ci])
                    });
                    if dup {
                        return mk(sql, "insert-unique-duplicate", Expect::Reject);
                    }
                    let mut n = m.clone();
                    n.tabs.get_mut(&tname).unwrap().rows.push(row);
                    mk(sql, "insert", Expect::Accept(n))
                }
            }
        }
        24 | 25 if regular => {
            let k = rng.range(0, 6);
            let v = rng.range(0, 6);
            let sql = format!("UPDATE {} SET b = {} WHERE id = {}", ttok, v, *next_id - rng.range(0, 4));
            let _ = k;
            match m.tabs.get(&tname) {
                None => mk(sql, "update-missing-table", if table_sibling { Expect::Either(m.clone()) } else { Expect::Reject }),
                Some(t) if !t.cols.contains(&"B".to_string()) => mk(sql, "update-missing-column", Expect::Either(m.clone())),
                Some(t) => {
                    let bi = t.cols.iter().position(|c| c == "B").unwrap();
                    let target = sql.rsplit(' ').next().unwrap().parse::<i64>().unwrap();
                    let mut n = m.clone();
                    for r in n.tabs.get_mut(&tname).unwrap().rows.iter_mut() {
                        if r[0] == Some(target) {
                            r[bi] = Some(v);
                        }
                    }
                    mk(sql, "update", Expect::Accept(n))
                }
            }
        }
        26 if regular => {
            let k = rng.range(0, 6);
            let sql = format!("DELETE FROM {} WHERE a = {}", ttok, k);
            match m.tabs.get(&tname) {
                None => mk(sql, "delete-missing-table", if table_sibling { Expect::Either(m.clone()) } else { Expect::Reject }),
                Some(t) if !t.cols.contains(&"A".to_string()) => mk(sql, "delete-missing-column", Expect::Either(m.clone())),
                Some(t) => {
                    let ai = t.cols.iter().position(|c| c == "A").unwrap();
                    let mut n = m.clone();
                    n.tabs.get_mut(&tname).unwrap().rows.retain(|r| r[ai] != Some(k));
                    mk(sql, "delete", Expect::Accept(n))
                }
            }
        }
        _ => {
            // a read through whatever name: never changes anything
            let sql = format!("SELECT COUNT(*) FROM {}", ttok);
            mk(sql, "select", if exists { Expect::Accept(m.clone()) } else if table_sibling { Expect::Either(m.clone()) } else { Expect::Reject })
        }
    }
}

fn tok_for(name: &str) -> String {
    if name.chars().any(|c| c.is_lowercase()) {
        format!("\"{}\"", name)
    } else {
        name.to_lowercase()
    }
}

fn strip_schema(n: &str) -> String {
    n.rsplit('.').next().unwrap_or(n).to_string()
}

/// Compare everything observable with the model; returns (oracle, detail) of the first mismatch.
fn audit(s: &mut Session, m: &Model) -> Option<(String, serde_json::Value)> {
    let rec = s.record;
    s.record = false;
    let r = audit_inner(s, m);
    s.record = rec;
    r
}

fn audit_inner(s: &mut Session, m: &Model) -> Option<(String, serde_json::Value)> {
    // table listings: catalog and storage
    let want: BTreeSet<String> = m.tabs.keys().cloned().collect();
    let cat: BTreeSet<String> = s.db.catalog.list_tables().iter().map(|n| strip_schema(n)).collect();
    let sto: BTreeSet<String> = s.db.list_tables().iter().map(|n| strip_schema(n)).collect();
    if cat != want {
        return Some(("catalog-table-listing".into(), json!({"catalog": cat, "model": want})));
    }
    if sto != want {
        return Some(("storage-table-listing".into(), json!({"storage": sto, "model": want})));
    }
    // index registries: storage (by name) and catalog (by table.name)
    let want_ix: BTreeSet<(String, String)> = m.ixs.iter().map(|(n, i)| (i.table.to_uppercase(), n.to_uppercase())).collect();
    let sto_ix: BTreeSet<(String, String)> = s
        .db
        .list_indexes()
        .iter()
        .map(|n| (s.db.get_index(n).map_or("?".to_string(), |md| strip_schema(&md.table_name).to_uppercase()), strip_schema(n).to_uppercase()))
        .collect();
    let cat_ix: BTreeSet<(String, String)> = s.db.catalog.list_all_indexes().iter().map(|i| (strip_schema(&i.table_name).to_uppercase(), strip_schema(&i.name).to_uppercase())).collect();
    if sto_ix != cat_ix {
        return Some(("index-registries-disagree".into(), json!({"storage": sto_ix, "catalog": cat_ix, "model": want_ix})));
    }
    if sto_ix != want_ix {
        return Some(("index-listing".into(), json!({"engine": sto_ix, "model": want_ix})));
    }
    for (name, t) in &m.tabs {
        // declared columns: catalog vs stored table
        let cat_cols: Option<Vec<String>> = s.db.catalog.get_table(name).map(|sc| sc.columns.iter().map(|c| c.name.clone()).collect());
        let sto_cols: Option<Vec<String>> = s.db.get_table(name).map(|tb| tb.schema.columns.iter().map(|c| c.name.clone()).collect());
        if cat_cols.as_ref() != Some(&t.cols) {
            return Some(("catalog-columns".into(), json!({"table": name, "catalog": cat_cols, "model": t.cols})));
        }
        if sto_cols.as_ref() != Some(&t.cols) {
            return Some(("storage-columns".into(), json!({"table": name, "storage": sto_cols, "model": t.cols})));
        }
        // contents
        let tok = tok_for(name);
        let rows = match s.query(&format!("SELECT * FROM {}", tok)) {
            Ok(r) => r,
            Err(e) => return Some(("listed-table-not-queryable".into(), json!({"table": name, "error": e}))),
        };
        let got: Vec<Vec<V>> = {
            let mut g: Vec<Vec<V>> = rows.iter().map(|r| r.iter().map(|v| if let Canon::Int(i) = v { Some(*i as i64) } else { None }).collect()).collect();
            g.sort();
            g
        };
        let mut exp = t.rows.clone();
        exp.sort();
        if got != exp {
            let arity_bad = rows.iter().any(|r| r.len() != t.cols.len());
            return Some((if arity_bad { "row-arity".into() } else { "table-contents".into() }, json!({"table": name, "engine": format!("{:?}", got), "model": format!("{:?}", exp)})));
        }
        // probes through every column (index or not): equality and ordering
        for (ci, c) in t.cols.iter().enumerate().skip(1) {
            if c == "S" {
                continue;
            }
            for k in [0i64, 1, 3, 5, 7] {
                let sql = format!("SELECT id FROM {} WHERE {} = {}", tok, c.to_lowercase(), k);
                let mut exp: Vec<i64> = t.rows.iter().filter(|r| r[ci] == Some(k)).filter_map(|r| r[0]).collect();
                exp.sort();
                match s.query(&sql) {
                    Ok(r) => {
                        let mut got: Vec<i64> = r.iter().filter_map(|x| if let Some(Canon::Int(i)) = x.first() { Some(*i as i64) } else { None }).collect();
                        got.sort();
                        if got != exp {
                            let indexed = m.ixs.values().any(|i| i.table == *name && i.cols[0] == *c);
                            return Some((format!("probe-query{}", if indexed { "-indexed" } else { "" }), json!({"sql": sql, "engine": got, "model": exp})));
                        }
                    }
                    Err(e) => return Some(("probe-query-error".into(), json!({"sql": sql, "error": e}))),
                }
            }
        }
    }
    None
}

pub fn run(ctx: &mut Ctx) {
    let total = ctx.n(1500, 40_000);
    for case in ctx.my_cases(total) {
        ctx.begin_case(case);
        let mut rng = ctx.rng(case);
        let mut s = Session::new();
        let mut m = Model::default();
        let (mut next_id, mut next_col) = (0i64, 0i64);
        let steps = rng.range(10, 40);
        for _ in 0..steps {
            let st = gen_stmt(&mut rng, &m, &mut next_id, &mut next_col);
            let sibling = m.has_case_sibling();
            let out = s.exec(&st.sql);
            ctx.eval();
            let fail = |ctx: &mut Ctx, s: &Session, sig: String, extra: serde_json::Value| {
                ctx.violation(case, sig, json!({"statement": st.sql, "detail": extra, "history": s.history_json()}));
            };
            if let Outcome::Panic(p) = &out {
                fail(ctx, &s, format!("panic:{}|{}", st.shape, panic_class(p)), json!(p));
                break;
            }
            let sib = if sibling { "|case-sibling-present" } else { "" };
            let accepted = !out.is_err();
            let next = match (&st.expect, accepted) {
                (Expect::Accept(n), true) | (Expect::Either(n), true) => n.clone(),
                (Expect::Reject, false) | (Expect::Either(_), false) => m.clone(),
                (Expect::Accept(_), false) => {
                    fail(ctx, &s, format!("rejected-valid-statement:{}{}", st.shape, sib), json!(out.brief()));
                    break;
                }
                (Expect::Reject, true) => {
                    fail(ctx, &s, format!("accepted-invalid-statement:{}{}", st.shape, sib), json!(out.brief()));
                    break;
                }
            };
            if let Some((oracle, detail)) = audit(&mut s, &next) {
                fail(ctx, &s, format!("{}:after-{}{}{}", oracle, st.shape, if accepted { "" } else { "-rejected" }, sib), detail);
                break;
            }
            ctx.nontrivial(format!("{}|{}{}", st.shape, if accepted { "accepted" } else { "rejected" }, sib));
            ctx.count(&format!("tables:{}", next.tabs.len()), 1);
            ctx.count(&format!("indexes:{}", next.ixs.len().min(4)), 1);
            m = next;
        }
        ctx.sample(|| json!({"history": s.history_json()}));
    }
}
