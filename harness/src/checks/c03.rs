//! C03 — columnar aggregate fast path == row path (twin via the `no_columnar` switch), and
//! C07 — aggregates / grouping follow their SQL definitions (executable model), on both paths.

use std::collections::BTreeMap;

use serde_json::json;
use vibesql_storage::Row;
use vibesql_types::SqlValue;

use crate::core::canon::{multiset_eq, seq_eq, show_rows, CRow, Canon};
use crate::core::ctx::Ctx;
use crate::core::rng::Rng;
use crate::core::session::{Outcome, Session};
use crate::core::util::panic_class;

#[derive(Clone, Debug, PartialEq)]
enum M {
    Null,
    Int(i64),
    Dbl(f64),
    Str(String),
}

impl M {
    fn sql(&self) -> SqlValue {
        match self {
            M::Null => SqlValue::Null,
            M::Int(i) => SqlValue::Integer(*i),
            M::Dbl(f) => SqlValue::Double(*f),
            M::Str(s) => SqlValue::Varchar(s.clone()),
        }
    }
    fn canon(&self) -> Canon {
        match self {
            M::Null => Canon::Null,
            M::Int(i) => Canon::Int(*i as i128),
            M::Dbl(f) => Canon::num(*f),
            M::Str(s) => Canon::Text(s.clone()),
        }
    }
    fn num(&self) -> Option<f64> {
        match self {
            M::Int(i) => Some(*i as f64),
            M::Dbl(f) => Some(*f),
            _ => None,
        }
    }
}

// columns: 0 id INTEGER, 1 i INTEGER, 2 j INTEGER, 3 d DOUBLE PRECISION, 4 s VARCHAR(10)
const COLS: [&str; 5] = ["id", "i", "j", "d", "s"];

#[derive(Clone, Debug)]
enum Arg {
    Star,
    Col(usize),
    Mul(usize, usize),
    AddK(usize, i64),
}

#[derive(Clone, Debug)]
struct Agg {
    f: &'static str,
    arg: Arg,
    distinct: bool,
}

#[derive(Clone, Debug)]
enum Atom {
    Cmp(usize, &'static str, M),
    Between(usize, M, M),
}

impl Arg {
    fn sql(&self) -> String {
        match self {
            Arg::Star => "*".into(),
            Arg::Col(c) => COLS[*c].into(),
            Arg::Mul(a, b) => format!("{} * {}", COLS[*a], COLS[*b]),
            Arg::AddK(a, k) => format!("{} + {}", COLS[*a], k),
        }
    }
    fn eval(&self, r: &[M]) -> M {
        let arith = |x: &M, y: &M, mul: bool| -> M {
            match (x, y) {
                (M::Null, _) | (_, M::Null) => M::Null,
                (M::Int(a), M::Int(b)) => M::Int(if mul { a * b } else { a + b }),
                (a, b) => match (a.num(), b.num()) {
                    (Some(p), Some(q)) => M::Dbl(if mul { p * q } else { p + q }),
                    _ => M::Null,
                },
            }
        };
        match self {
            Arg::Star => M::Int(1),
            Arg::Col(c) => r[*c].clone(),
            Arg::Mul(a, b) => arith(&r[*a], &r[*b], true),
            Arg::AddK(a, k) => arith(&r[*a], &M::Int(*k), false),
        }
    }
}

impl Agg {
    fn sql(&self) -> String {
        format!("{}({}{})", self.f, if self.distinct { "DISTINCT " } else { "" }, self.arg.sql())
    }
    /// The SQL definition, computed naively.
    fn model(&self, rows: &[&Vec<M>]) -> Canon {
        if matches!(self.arg, Arg::Star) {
            return Canon::Int(rows.len() as i128);
        }
        let mut vals: Vec<M> = rows.iter().map(|r| self.arg.eval(r)).filter(|v| *v != M::Null).collect();
        if self.distinct {
            let mut d: Vec<M> = Vec::new();
            for v in vals {
                let dup = d.iter().any(|x| match (x.num(), v.num()) {
                    (Some(a), Some(b)) => a == b,
                    _ => *x == v,
                });
                if !dup {
                    d.push(v);
                }
            }
            vals = d;
        }
        match self.f {
            "COUNT" => Canon::Int(vals.len() as i128),
            _ if vals.is_empty() => Canon::Null,
            "SUM" | "AVG" => {
                let all_int = vals.iter().all(|v| matches!(v, M::Int(_)));
                let n = vals.len() as f64;
                if all_int {
                    let s: i128 = vals.iter().map(|v| if let M::Int(i) = v { *i as i128 } else { 0 }).sum();
                    if self.f == "SUM" { Canon::Int(s) } else { Canon::num(s as f64 / n) }
                } else {
                    let s: f64 = vals.iter().filter_map(|v| v.num()).sum();
                    if self.f == "SUM" { Canon::num(s) } else { Canon::num(s / n) }
                }
            }
            "MIN" | "MAX" => {
                let mut best = vals[0].clone();
                for v in &vals[1..] {
                    let less = match (v, &best) {
                        (M::Str(a), M::Str(b)) => a < b,
                        (a, b) => a.num().unwrap_or(0.0) < b.num().unwrap_or(0.0),
                    };
                    let greater = match (v, &best) {
                        (M::Str(a), M::Str(b)) => a > b,
                        (a, b) => a.num().unwrap_or(0.0) > b.num().unwrap_or(0.0),
                    };
                    if (self.f == "MIN" && less) || (self.f == "MAX" && greater) {
                        best = v.clone();
                    }
                }
                best.canon()
            }
            _ => Canon::Null,
        }
    }
}

impl Atom {
    fn sql(&self) -> String {
        let lit = |m: &M| match m {
            M::Null => "NULL".to_string(),
            M::Int(i) => i.to_string(),
            M::Dbl(f) => format!("{:?}", f),
            M::Str(s) => format!("'{}'", s),
        };
        match self {
            Atom::Cmp(c, op, v) => format!("{} {} {}", COLS[*c], op, lit(v)),
            Atom::Between(c, lo, hi) => format!("{} BETWEEN {} AND {}", COLS[*c], lit(lo), lit(hi)),
        }
    }
    /// TRUE only (NULL/unknown does not pass)
    fn passes(&self, r: &[M]) -> bool {
        let cmp = |a: &M, b: &M| -> Option<std::cmp::Ordering> {
            match (a, b) {
                (M::Null, _) | (_, M::Null) => None,
                (M::Str(x), M::Str(y)) => Some(x.cmp(y)),
                (x, y) => x.num().zip(y.num()).and_then(|(p, q)| p.partial_cmp(&q)),
            }
        };
        match self {
            Atom::Cmp(c, op, v) => match cmp(&r[*c], v) {
                None => false,
                Some(o) => match *op {
                    "=" => o.is_eq(),
                    "<>" => o.is_ne(),
                    "<" => o.is_lt(),
                    "<=" => o.is_le(),
                    ">" => o.is_gt(),
                    _ => o.is_ge(),
                },
            },
            Atom::Between(c, lo, hi) => matches!((cmp(&r[*c], lo), cmp(&r[*c], hi)), (Some(a), Some(b)) if a.is_ge() && b.is_le()),
        }
    }
}

fn gen_rows(rng: &mut Rng, thorough: bool) -> Vec<Vec<M>> {
    let sizes: &[usize] = if thorough { &[0, 1, 2, 3, 4, 5, 7, 8, 9, 15, 16, 17, 63, 64, 65, 300, 1030] } else { &[0, 1, 2, 3, 4, 5, 7, 8, 9, 16, 17, 33, 65, 130, 1024, 1500, 2048] };
    let n = *rng.pick(sizes);
    let null_pct = *rng.pick(&[0u64, 0, 10, 30, 100]);
    let null_col = rng.usize(5); // one column gets the chosen density, the others 10 %
    let big = rng.chance(1, 6);
    // sometimes the chosen column starts with a run of NULLs (type sampling looks at leading rows)
    let lead_nulls = if rng.chance(1, 3) { *rng.pick(&[1usize, 8, 100, 101, 120]) } else { 0 };
    (0..n)
        .map(|k| {
            let mut nul = |rng: &mut Rng, col: usize| (col == null_col && k < lead_nulls) || rng.chance(if col == null_col { if lead_nulls > 0 { 10 } else { null_pct } } else { 8 }, 100);
            vec![
                M::Int(k as i64 + 1),
                if nul(rng, 1) { M::Null } else { M::Int(if big { rng.range(-1_000_000_000, 1_000_000_000) } else { rng.range(-5, 5) }) },
                if nul(rng, 2) { M::Null } else { M::Int(rng.range(-3, 3)) },
                if nul(rng, 3) { M::Null } else { M::Dbl(*rng.pick(&[0.0, -0.0, 0.5, -0.5, 1.0, 1.5, 2.25, -3.0, 100.125, 1e10])) },
                if nul(rng, 4) { M::Null } else { M::Str(rng.pick(&["a", "b", "ab", "B", "", "zz"]).to_string()) },
            ]
        })
        .collect()
}

fn gen_agg(rng: &mut Rng, allow_distinct: bool) -> Agg {
    let f = *rng.pick(&["COUNT", "COUNT", "SUM", "AVG", "MIN", "MAX"]);
    if f == "COUNT" && rng.chance(1, 2) {
        return Agg { f, arg: Arg::Star, distinct: false };
    }
    let arg = match rng.below(8) {
        0 | 1 => Arg::Col(1),
        2 => Arg::Col(2),
        3 | 4 => Arg::Col(3),
        5 => {
            if f == "MIN" || f == "MAX" || f == "COUNT" { Arg::Col(4) } else { Arg::Col(1) }
        }
        6 => Arg::Mul(*rng.pick(&[1usize, 2, 3]), *rng.pick(&[2usize, 3])),
        _ => Arg::AddK(*rng.pick(&[1usize, 2, 3]), rng.range(-2, 3)),
    };
    Agg { f, arg, distinct: allow_distinct && rng.chance(1, 6) && f != "MIN" && f != "MAX" }
}

fn gen_where(rng: &mut Rng) -> Vec<Atom> {
    if rng.chance(2, 5) {
        return vec![];
    }
    (0..rng.range(1, 2))
        .map(|_| {
            let c = *rng.pick(&[1usize, 1, 2, 3, 4]);
            let lit = |rng: &mut Rng| match c {
                3 => M::Dbl(*rng.pick(&[0.0, 0.5, 1.0, 2.25, -3.0])),
                4 => M::Str(rng.pick(&["a", "b", "ab", ""]).to_string()),
                _ => {
                    // integer columns are also compared with non-integral literals (4.5)
                    if rng.chance(1, 10) { M::Null } else if rng.chance(1, 5) { M::Dbl(rng.range(-3, 4) as f64 + 0.5) } else { M::Int(rng.range(-3, 4)) }
                }
            };
            if rng.chance(1, 5) {
                Atom::Between(c, lit(rng), lit(rng))
            } else {
                Atom::Cmp(c, *rng.pick(&["=", "<>", "<", "<=", ">", ">="]), lit(rng))
            }
        })
        .collect()
}

struct Case {
    sql: String,
    aggs: Vec<Agg>,
    atoms: Vec<Atom>,
    group: Vec<usize>,
    limit: Option<usize>,
    offset: Option<usize>,
    having: Option<(Agg, &'static str, i64)>,
    ordered: bool,
}

fn gen_case(rng: &mut Rng, grouped_ok: bool) -> Case {
    let group: Vec<usize> = if grouped_ok && rng.chance(2, 5) { match rng.below(4) { 0 => vec![2], 1 => vec![4], 2 => vec![2, 4], _ => vec![1] } } else { vec![] };
    let aggs: Vec<Agg> = (0..rng.range(1, 3)).map(|_| gen_agg(rng, true)).collect();
    let atoms = gen_where(rng);
    let having = if rng.chance(1, 6) { Some((gen_agg(rng, false), *rng.pick(&[">", ">=", "<", "=", "<>"]), rng.range(0, 3))) } else { None };
    let having = having.filter(|(a, _, _)| !matches!(a.arg, Arg::Col(4)));
    let (limit, offset) = if rng.chance(1, 5) { (Some(rng.usize(3)), if rng.chance(1, 2) { Some(rng.usize(2)) } else { None }) } else { (None, None) };
    let ordered = (limit.is_some() || rng.chance(1, 4)) && true;
    let mut items: Vec<String> = group.iter().map(|c| COLS[*c].to_string()).collect();
    items.extend(aggs.iter().map(|a| a.sql()));
    let mut sql = format!("SELECT {} FROM t", items.join(", "));
    if !atoms.is_empty() {
        sql.push_str(&format!(" WHERE {}", atoms.iter().map(|a| a.sql()).collect::<Vec<_>>().join(" AND ")));
    }
    if !group.is_empty() {
        sql.push_str(&format!(" GROUP BY {}", group.iter().map(|c| COLS[*c]).collect::<Vec<_>>().join(", ")));
    }
    if let Some((a, op, k)) = &having {
        sql.push_str(&format!(" HAVING {} {} {}", a.sql(), op, k));
    }
    if ordered {
        sql.push_str(&format!(" ORDER BY {}", (1..=items.len()).map(|p| p.to_string()).collect::<Vec<_>>().join(", ")));
    }
    if let Some(l) = limit {
        sql.push_str(&format!(" LIMIT {}", l));
    }
    if let Some(o) = offset {
        sql.push_str(&format!(" OFFSET {}", o));
    }
    Case { sql, aggs, atoms, group, limit, offset, having, ordered }
}

/// Harness comparator: NULLs last, numbers by value, text bytewise.
fn order_rows(rows: &mut [CRow]) {
    rows.sort_by(|a, b| {
        for (x, y) in a.iter().zip(b.iter()) {
            let c = match (x.is_null(), y.is_null()) {
                (true, true) => std::cmp::Ordering::Equal,
                (true, false) => std::cmp::Ordering::Greater,
                (false, true) => std::cmp::Ordering::Less,
                _ => x.total_cmp(y),
            };
            if c != std::cmp::Ordering::Equal {
                return c;
            }
        }
        std::cmp::Ordering::Equal
    });
}

fn model_result(c: &Case, rows: &[Vec<M>]) -> Vec<CRow> {
    let kept: Vec<&Vec<M>> = rows.iter().filter(|r| c.atoms.iter().all(|a| a.passes(r))).collect();
    let mut groups: Vec<(Vec<M>, Vec<&Vec<M>>)> = Vec::new();
    if c.group.is_empty() {
        groups.push((vec![], kept));
    } else {
        let mut map: BTreeMap<String, usize> = BTreeMap::new();
        for r in kept {
            let key: Vec<M> = c.group.iter().map(|g| r[*g].clone()).collect();
            let ks = format!("{:?}", key);
            let idx = *map.entry(ks).or_insert_with(|| {
                groups.push((key.clone(), vec![]));
                groups.len() - 1
            });
            groups[idx].1.push(r);
        }
    }
    let mut out: Vec<CRow> = Vec::new();
    for (key, members) in &groups {
        if let Some((a, op, k)) = &c.having {
            let v = a.model(members);
            let pass = match v.as_f64() {
                None => false,
                Some(x) => {
                    let k = *k as f64;
                    match *op { ">" => x > k, ">=" => x >= k, "<" => x < k, "=" => x == k, _ => x != k }
                }
            };
            if !pass {
                continue;
            }
        }
        let mut row: CRow = key.iter().map(|m| m.canon()).collect();
        row.extend(c.aggs.iter().map(|a| a.model(members)));
        out.push(row);
    }
    if c.ordered {
        order_rows(&mut out);
        let off = c.offset.unwrap_or(0).min(out.len());
        out = out[off..].to_vec();
        if let Some(l) = c.limit {
            out.truncate(l);
        }
    }
    out
}

fn load(rows: &[Vec<M>]) -> Session {
    let mut s = Session::new();
    s.must("CREATE TABLE t (id INTEGER, i INTEGER, j INTEGER, d DOUBLE PRECISION, s VARCHAR(10))");
    for r in rows {
        s.db.insert_row("T", Row::new(r.iter().map(|m| m.sql()).collect())).expect("direct insert");
    }
    s
}

fn set_columnar(on: bool) {
    vibesql_types::verif_probe::set_switch("no_columnar", !on);
}

pub fn run_c03(ctx: &mut Ctx) {
    run(ctx, true)
}
pub fn run_c07(ctx: &mut Ctx) {
    run(ctx, false)
}

fn run(ctx: &mut Ctx, twin: bool) {
    let total = ctx.n(700, 50_000);
    for case in ctx.my_cases(total) {
        ctx.begin_case(case);
        let mut rng = ctx.rng(case);
        let rows = gen_rows(&mut rng, !ctx.quick());
        let mut s = load(&rows);
        let data_tags = format!("n={}{}", match rows.len() { 0 => "0".to_string(), 1 => "1".into(), 2..=8 => "small".into(), 9..=70 => "mid".into(), _ => "large".into() }, if rows.iter().any(|r| r.iter().any(|m| *m == M::Null)) { ":nulls" } else { "" });
        for q in 0..8 {
            // C03 stays inside the columnar gate's shape (no GROUP BY / DISTINCT); C07 roams wider
            let mut c = gen_case(&mut rng, !twin || q % 4 == 3);
            if twin && q % 4 != 3 {
                for a in c.aggs.iter_mut() {
                    a.distinct = false;
                }
                c = Case { sql: String::new(), ..c };
                // re-render without DISTINCT
                let mut items: Vec<String> = c.aggs.iter().map(|a| a.sql()).collect();
                let mut sql = format!("SELECT {} FROM t", { items.dedup(); c.aggs.iter().map(|a| a.sql()).collect::<Vec<_>>().join(", ") });
                if !c.atoms.is_empty() {
                    sql.push_str(&format!(" WHERE {}", c.atoms.iter().map(|a| a.sql()).collect::<Vec<_>>().join(" AND ")));
                }
                if let Some((a, op, k)) = &c.having {
                    sql.push_str(&format!(" HAVING {} {} {}", a.sql(), op, k));
                }
                if c.ordered {
                    sql.push_str(&format!(" ORDER BY {}", (1..=c.aggs.len()).map(|p| p.to_string()).collect::<Vec<_>>().join(", ")));
                }
                if let Some(l) = c.limit {
                    sql.push_str(&format!(" LIMIT {}", l));
                }
                if let Some(o) = c.offset {
                    sql.push_str(&format!(" OFFSET {}", o));
                }
                c.sql = sql;
            }
            let shape = format!(
                "{}|{}|{}|{}{}{}",
                c.aggs.iter().map(|a| format!("{}{}", a.f, match a.arg { Arg::Star => "*", Arg::Col(4) => ":text", Arg::Col(3) => ":dbl", Arg::Col(_) => ":int", Arg::Mul(..) => ":mul", Arg::AddK(..) => ":add" })).collect::<Vec<_>>().join("+"),
                if c.atoms.is_empty() { "nowhere".to_string() } else { c.atoms.iter().map(|a| match a { Atom::Cmp(_, op, M::Null) => format!("{}NULL", op), Atom::Cmp(_, op, _) => op.to_string(), Atom::Between(..) => "between".into() }).collect::<Vec<_>>().join("&") },
                if c.group.is_empty() { "nogroup".to_string() } else { format!("group{}", c.group.len()) },
                if c.having.is_some() { "having" } else { "" },
                if c.limit.is_some() { "+limit" } else { "" },
                if c.offset.is_some() { "+offset" } else { "" },
            );
            ctx.eval();
            set_columnar(true);
            let fast = s.exec(&c.sql);
            let used_columnar = s.hit("columnar");
            set_columnar(false);
            let slow = s.exec(&c.sql);
            set_columnar(true);
            let detail = |extra: serde_json::Value| json!({"sql": c.sql, "rows": rows.iter().take(40).map(|r| format!("{:?}", r)).collect::<Vec<_>>(), "row_count": rows.len(), "columnar_path_taken": used_columnar, "more": extra});
            for (name, o) in [("default-path", &fast), ("row-path", &slow)] {
                if let Outcome::Panic(p) = o {
                    ctx.violation(case, format!("panic:{}:{}", name, panic_class(p)), detail(json!({"panic": p})));
                }
            }
            let sig_shape = shape.clone();
            if twin {
                match (&fast, &slow) {
                    (Outcome::Rows(f), Outcome::Rows(r)) => {
                        let same = if c.ordered { seq_eq(f, r, 1e-9) } else { multiset_eq(f, r, 1e-9) };
                        if !same {
                            ctx.violation(case, format!("columnar-differs-from-row|{}|{}", sig_shape, data_tags), detail(json!({"default_path": show_rows(f, 10), "row_path": show_rows(r, 10)})));
                        } else if used_columnar {
                            // explicit clauses of the statement
                            if c.having.is_none() && c.limit.is_none() && c.offset.is_none() && f.len() != 1 {
                                ctx.violation(case, format!("not-exactly-one-row|{}", sig_shape), detail(json!({"rows": show_rows(f, 10)})));
                            }
                            for (i, a) in c.aggs.iter().enumerate() {
                                if a.f == "COUNT" && f.iter().any(|row| row[i].is_null()) {
                                    ctx.violation(case, format!("count-is-null|{}", sig_shape), detail(json!({"rows": show_rows(f, 10)})));
                                }
                            }
                            ctx.nontrivial(format!("{}|{}", shape, data_tags));
                            ctx.count("probe:columnar", 1);
                        } else {
                            ctx.count("query_not_taken_by_columnar_gate", 1);
                        }
                    }
                    (Outcome::Err(e), Outcome::Rows(_)) => ctx.violation(case, format!("error-only-on-columnar-path|{}", sig_shape), detail(json!({"error": e}))),
                    (Outcome::Rows(_), Outcome::Err(e)) => ctx.violation(case, format!("error-only-on-row-path|{}", sig_shape), detail(json!({"error": e}))),
                    _ => ctx.count("error_on_both_paths", 1),
                }
            } else {
                let want = model_result(&c, &rows);
                for (name, o) in [("default-path", &fast), ("row-path", &slow)] {
                    match o {
                        Outcome::Rows(got) => {
                            let same = if c.ordered { seq_eq(got, &want, 1e-9) } else { multiset_eq(got, &want, 1e-9) };
                            if !same {
                                let kind = if got.len() != want.len() { "row-count" } else if c.ordered && multiset_eq(got, &want, 1e-9) { "order" } else { "values" };
                                ctx.violation(case, format!("differs-from-definition:{}:{}|{}|{}", name, kind, sig_shape, data_tags), detail(json!({"engine": show_rows(got, 10), "definition": show_rows(&want, 10)})));
                            } else {
                                ctx.nontrivial(format!("{}|{}|{}", shape, data_tags, if used_columnar && name == "default-path" { "columnar" } else { "row" }));
                            }
                        }
                        Outcome::Err(e) => {
                            ctx.count("engine_error", 1);
                            if q == 0 {
                                ctx.notes.push(format!("example engine error: {} -> {}", crate::core::util::trunc(&c.sql, 80), crate::core::util::trunc(e, 80)));
                            }
                        }
                        _ => {}
                    }
                }
            }
            if q == 0 {
                let sql = c.sql.clone();
                ctx.sample(|| json!({"sql": sql, "table_rows": rows.len(), "columnar_path_taken": used_columnar}));
            }
        }
        if !twin {
            join_family(ctx, case, &mut rng);
        }
    }
}

/// C07 over a join: both sides have the same column names, so every aggregate argument is a
/// qualified reference (x.a vs y.a) and aggregates over either side appear in one select list.
fn join_family(ctx: &mut Ctx, case: u64, rng: &mut Rng) {
    type R = (i64, Option<i64>, Option<i64>);
    let gen = |rng: &mut Rng, n: i64| -> Vec<R> {
        (1..=n).map(|id| (id, if rng.chance(1, 6) { None } else { Some(rng.range(-3, 9)) }, if rng.chance(1, 6) { None } else { Some(rng.range(0, 3)) })).collect()
    };
    let (nx, ny) = (rng.range(0, 9), rng.range(0, 9));
    let (tx, ty) = (gen(rng, nx), gen(rng, ny));
    let mut s = Session::new();
    s.record = false;
    s.must("CREATE TABLE jx (id INTEGER, a INTEGER, b INTEGER)");
    s.must("CREATE TABLE jy (id INTEGER, a INTEGER, b INTEGER)");
    let lit = |v: Option<i64>| v.map_or("NULL".to_string(), |i| i.to_string());
    for (t, rows) in [("jx", &tx), ("jy", &ty)] {
        for r in rows.iter() {
            s.must(&format!("INSERT INTO {} SELECT {}, {}, {}", t, r.0, lit(r.1), lit(r.2)));
        }
    }
    s.record = true;
    for _ in 0..4 {
        let on = *rng.pick(&["x.id = y.id", "x.b = y.b", "x.id = y.b"]);
        let joined: Vec<(&R, &R)> = tx
            .iter()
            .flat_map(|x| ty.iter().map(move |y| (x, y)))
            .filter(|(x, y)| match on {
                "x.id = y.id" => x.0 == y.0,
                "x.b = y.b" => x.2.is_some() && x.2 == y.2,
                _ => Some(x.0) == y.2,
            })
            .collect();
        // aggregate list: (sql, side, column, function)
        let pool = [("SUM", 'x', 'a'), ("SUM", 'y', 'a'), ("COUNT", 'x', 'a'), ("COUNT", 'y', 'a'), ("MIN", 'x', 'a'), ("MAX", 'y', 'a'), ("SUM", 'x', 'b'), ("SUM", 'y', 'b'), ("MAX", 'x', 'b'), ("MIN", 'y', 'b')];
        let k = rng.range(2, 5) as usize;
        let aggs: Vec<(&str, char, char)> = (0..k).map(|_| *rng.pick(&pool)).collect();
        let grouped = rng.chance(1, 2);
        let gcol = *rng.pick(&["x.b", "y.b"]);
        let list: Vec<String> = aggs.iter().map(|(f, s, c)| format!("{}({}.{})", f, s, c)).collect();
        let sql = if grouped {
            format!("SELECT {}, {}, COUNT(*) FROM jx AS x INNER JOIN jy AS y ON {} GROUP BY {}", gcol, list.join(", "), on, gcol)
        } else {
            format!("SELECT {}, COUNT(*) FROM jx AS x INNER JOIN jy AS y ON {}", list.join(", "), on)
        };
        let val = |p: &(&R, &R), s: char, c: char| -> Option<i64> {
            let r = if s == 'x' { p.0 } else { p.1 };
            if c == 'a' { r.1 } else { r.2 }
        };
        let agg = |rows: &[&(&R, &R)], f: &str, s: char, c: char| -> Canon {
            let v: Vec<i64> = rows.iter().filter_map(|p| val(p, s, c)).collect();
            match f {
                "COUNT" => Canon::Int(v.len() as i128),
                _ if v.is_empty() => Canon::Null,
                "SUM" => Canon::Int(v.iter().map(|x| *x as i128).sum()),
                "MIN" => Canon::Int(*v.iter().min().unwrap() as i128),
                _ => Canon::Int(*v.iter().max().unwrap() as i128),
            }
        };
        let mut want: Vec<CRow> = vec![];
        if grouped {
            let mut groups: BTreeMap<Option<i64>, Vec<&(&R, &R)>> = BTreeMap::new();
            for p in joined.iter() {
                let g = if gcol == "x.b" { p.0 .2 } else { p.1 .2 };
                groups.entry(g).or_default().push(p);
            }
            for (g, rows) in groups {
                let mut row = vec![g.map_or(Canon::Null, |i| Canon::Int(i as i128))];
                row.extend(aggs.iter().map(|(f, s, c)| agg(&rows, f, *s, *c)));
                row.push(Canon::Int(rows.len() as i128));
                want.push(row);
            }
        } else {
            let all: Vec<&(&R, &R)> = joined.iter().collect();
            let mut row: CRow = aggs.iter().map(|(f, s, c)| agg(&all, f, *s, *c)).collect();
            row.push(Canon::Int(all.len() as i128));
            want.push(row);
        }
        ctx.eval();
        match s.exec(&sql) {
            Outcome::Panic(p) => ctx.violation(case, format!("panic:join-aggregate:{}", panic_class(&p)), json!({"sql": sql, "panic": p})),
            Outcome::Rows(got) => {
                if !multiset_eq(&got, &want, 1e-9) {
                    let both_sides = aggs.iter().any(|a| a.1 == 'x') && aggs.iter().any(|a| a.1 == 'y');
                    ctx.violation(
                        case,
                        format!("differs-from-definition:join-aggregate|{}|{}", if grouped { "grouped" } else { "global" }, if both_sides { "both-sides" } else { "one-side" }),
                        json!({"sql": sql, "engine": show_rows(&got, 10), "definition": show_rows(&want, 10), "jx": format!("{:?}", tx), "jy": format!("{:?}", ty)}),
                    );
                } else {
                    ctx.nontrivial(format!("join-aggregate|{}|{}|rows{}", if grouped { "grouped" } else { "global" }, on, joined.len().min(3)));
                }
            }
            Outcome::Err(e) => {
                ctx.count("engine_error", 1);
                if ctx.notes.len() < 3 {
                    ctx.notes.push(format!("join aggregate rejected: {} -> {}", crate::core::util::trunc(&sql, 100), crate::core::util::trunc(&e, 80)));
                }
            }
            _ => {}
        }
    }
}
