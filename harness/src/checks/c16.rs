//! C16 — query results do not depend on the index storage backend.
//! Twin databases run the same history: one keeps user-defined indexes in memory, the other has
//! a memory budget of zero with SpillToDisk, so every index built over a non-empty table lives in
//! the disk-backed B+ tree. Every statement outcome and a battery of index-served probes must agree.

use serde_json::json;
use vibesql_storage::database::{DatabaseConfig, IndexData, SpillPolicy};
use vibesql_storage::Database;

use crate::core::canon::{multiset_eq, seq_eq, show_rows, CRow};
use crate::core::ctx::Ctx;
use crate::core::rng::Rng;
use crate::core::session::{Outcome, Session};
use crate::core::util::panic_class;

fn spilling_db(dir: &std::path::Path) -> Database {
    let cfg = DatabaseConfig { memory_budget: 0, disk_budget: usize::MAX / 2, spill_policy: SpillPolicy::SpillToDisk, sql_mode: vibesql_types::SqlMode::default() };
    Database::with_path_and_config(dir.to_path_buf(), cfg)
}

fn disk_backed(s: &Session) -> (usize, usize) {
    let names = s.db.list_indexes();
    let disk = names.iter().filter(|n| matches!(s.db.get_index_data(n), Some(IndexData::DiskBacked { .. }))).count();
    (disk, names.len())
}

/// (canonical key, sorted row ids) of every entry of an index, whatever its backend
fn index_entries(s: &Session, name: &str) -> Option<Vec<(String, Vec<usize>)>> {
    let key_str = |k: &Vec<vibesql_types::SqlValue>| k.iter().map(|v| crate::core::canon::Canon::from_sql(v).show()).collect::<Vec<_>>().join(",");
    let mut out: Vec<(String, Vec<usize>)> = match s.db.get_index_data(name)? {
        IndexData::InMemory { data } => data.iter().map(|(k, v)| (key_str(k), v.clone())).collect(),
        IndexData::DiskBacked { btree, .. } => {
            let guard = btree.lock();
            let nodes = guard.verif_dump().ok()?;
            let mut m: std::collections::BTreeMap<String, Vec<usize>> = Default::default();
            for n in nodes {
                if let vibesql_storage::btree::VerifNode::Leaf { entries, .. } = n {
                    for (k, ids) in entries {
                        m.entry(key_str(&k)).or_default().extend(ids.iter().map(|&i| i as usize));
                    }
                }
            }
            m.into_iter().collect()
        }
    };
    for (_, ids) in out.iter_mut() {
        ids.sort();
    }
    out.retain(|(_, ids)| !ids.is_empty());
    out.sort();
    Some(out)
}

/// debug-printed first keys of every index on both sides (storage types matter for lookups)
fn raw_keys(mem: &Session, dsk: &Session) -> serde_json::Value {
    let mut out = serde_json::Map::new();
    for n in dsk.db.list_indexes() {
        let m = match mem.db.get_index_data(&n) {
            Some(IndexData::InMemory { data }) => data.keys().take(4).map(|k| format!("{:?}", k)).collect::<Vec<_>>(),
            _ => vec![],
        };
        let d = match dsk.db.get_index_data(&n) {
            Some(IndexData::DiskBacked { btree, .. }) => {
                let g = btree.lock();
                let mut v = vec![];
                for node in g.verif_dump().unwrap_or_default() {
                    if let vibesql_storage::btree::VerifNode::Leaf { entries, .. } = node {
                        v.extend(entries.iter().take(4).map(|(k, _)| format!("{:?}", k)));
                        break;
                    }
                }
                v
            }
            _ => vec!["<in memory>".to_string()],
        };
        out.insert(n, json!({"in_memory": m, "disk_backed": d}));
    }
    serde_json::Value::Object(out)
}

/// IndexData::range_scan on both backends for bounds taken from the keys present (every bound
/// both inclusive and exclusive): the row-id sets must agree
fn range_scan_divergence(mem: &Session, dsk: &Session, rng: &mut Rng) -> Option<(String, serde_json::Value)> {
    let mut names = dsk.db.list_indexes();
    names.sort();
    for n in names {
        let (Some(IndexData::InMemory { data }), Some(d)) = (mem.db.get_index_data(&n), dsk.db.get_index_data(&n)) else { continue };
        let m = mem.db.get_index_data(&n).unwrap();
        let keys: Vec<vibesql_types::SqlValue> = data.keys().filter(|k| k.len() == 1 && !matches!(k[0], vibesql_types::SqlValue::Null)).map(|k| k[0].clone()).collect();
        if keys.is_empty() {
            continue;
        }
        for _ in 0..6 {
            let (a, b) = (rng.pick(&keys).clone(), rng.pick(&keys).clone());
            for (lo, hi, il, ih) in [(None, Some(&b), true, false), (None, Some(&b), true, true), (Some(&a), None, false, true), (Some(&a), Some(&b), true, false), (Some(&a), Some(&b), false, true)] {
                let mut x = m.range_scan(lo, hi, il, ih);
                let mut y = d.range_scan(lo, hi, il, ih);
                x.sort();
                y.sort();
                if x != y {
                    let kind = format!("{}{}", if lo.is_some() { if il { "[lo" } else { "(lo" } } else { "(-inf" }, if hi.is_some() { if ih { ",hi]" } else { ",hi)" } } else { ",+inf)" });
                    return Some((format!("{}|{}", n.to_lowercase(), kind), json!({"index": n, "lower": format!("{:?}", lo), "upper": format!("{:?}", hi), "in_memory_rows": x.len(), "disk_backed_rows": y.len(), "only_in_memory": x.iter().filter(|i| !y.contains(i)).take(8).collect::<Vec<_>>(), "only_disk_backed": y.iter().filter(|i| !x.contains(i)).take(8).collect::<Vec<_>>()})));
                }
            }
        }
    }
    None
}

/// first index whose entries differ between the twins
fn index_divergence(mem: &Session, dsk: &Session) -> Option<(String, serde_json::Value)> {
    let mut names = dsk.db.list_indexes();
    names.sort();
    for n in names {
        // well-formedness of the persisted tree (separators bound their subtrees, leaf chain in
        // order) and agreement with the in-memory twin's map
        if let (Some(IndexData::InMemory { data }), Some(IndexData::DiskBacked { btree, .. })) = (mem.db.get_index_data(&n), dsk.db.get_index_data(&n)) {
            let guard = btree.lock();
            if let Some((what, detail)) = crate::checks::c17::structure(&guard, data) {
                return Some((format!("{}:{}", n, what), json!({"index": n, "tree_defect": what, "detail": detail, "height": guard.height()})));
            }
        }
        let (a, b) = (index_entries(mem, &n), index_entries(dsk, &n));
        if a != b {
            let show = |x: &Option<Vec<(String, Vec<usize>)>>| x.as_ref().map(|v| v.iter().take(40).map(|(k, ids)| format!("[{}]->{:?}", k, ids)).collect::<Vec<_>>());
            return Some((n.clone(), json!({"index": n, "in_memory": show(&a), "disk_backed": show(&b)})));
        }
    }
    None
}

const STRS: [&str; 6] = ["a", "b", "ab", "abc", "b", "zz"];

fn value_list(rng: &mut Rng, id: i64) -> String {
    let a = if rng.chance(1, 8) { "NULL".to_string() } else { rng.range(0, 6).to_string() };
    let b = if rng.chance(1, 8) { "NULL".to_string() } else { rng.range(0, 4).to_string() };
    let c = if rng.chance(1, 8) { "NULL".to_string() } else { format!("'{}'", rng.pick(&STRS)) };
    format!("{}, {}, {}, {}, {}, 'k{:03}'", id, a, b, c, id * 10, id)
}

fn gen_dml(rng: &mut Rng, next_id: &mut i64) -> (String, &'static str) {
    match rng.below(16) {
        0..=3 => {
            *next_id += 1;
            (format!("INSERT INTO t VALUES ({})", value_list(rng, *next_id)), "insert")
        }
        4 => {
            let mut rows = vec![];
            for _ in 0..rng.range(2, 5) {
                *next_id += 1;
                rows.push(format!("({})", value_list(rng, *next_id)));
            }
            (format!("INSERT INTO t VALUES {}", rows.join(", ")), "insert-multi")
        }
        5 | 6 => (format!("UPDATE t SET a = {} WHERE {}", rng.range(0, 6), pred(rng)), "update-indexed-column"),
        7 => (format!("UPDATE t SET c = '{}' WHERE {}", rng.pick(&STRS), pred(rng)), "update-indexed-text"),
        8 => (format!("UPDATE t SET a = a + 1, b = {} WHERE {}", rng.range(0, 4), pred(rng)), "update-two-indexed-columns"),
        9 | 10 => (format!("DELETE FROM t WHERE {}", pred(rng)), "delete"),
        11 => (format!("UPDATE t SET u = u + 1000 WHERE {}", pred(rng)), "update-unique-column"),
        12 | 13 => {
            // drain a region of the (mostly distinct) text key: every row is one tree delete + insert
            let lo = rng.range(1, 140);
            let hi = lo + rng.range(2, 25);
            (format!("UPDATE t SET k = '{}' WHERE k >= 'k{:03}' AND k < 'k{:03}'", rng.pick(&["a", "zzz", "k000", "m"]), lo, hi), "update-drain-text-key-region")
        }
        _ => {
            let id = rng.range(1, 160);
            (format!("UPDATE t SET k = 'k{:03}' WHERE id = {}", rng.range(1, 200), id), "update-text-key")
        }
    }
}

fn pred(rng: &mut Rng) -> String {
    match rng.below(7) {
        0 => format!("id = {}", rng.range(1, 30)),
        1 => format!("a = {}", rng.range(0, 6)),
        2 => format!("a >= {}", rng.range(0, 6)),
        3 => format!("b = {} AND a < {}", rng.range(0, 4), rng.range(1, 6)),
        4 => format!("c = '{}'", rng.pick(&STRS)),
        5 => "a IS NULL".to_string(),
        _ => format!("id > {}", rng.range(1, 30)),
    }
}

fn probes(rng: &mut Rng) -> Vec<(String, bool)> {
    let k = rng.range(0, 6);
    let k2 = rng.range(0, 6);
    let st = *rng.pick(&STRS);
    vec![
        (format!("SELECT id, a FROM t WHERE a = {}", k), false),
        (format!("SELECT id, a FROM t WHERE a > {} AND a <= {}", k.min(k2), k.max(k2)), false),
        (format!("SELECT id, a FROM t WHERE a BETWEEN {} AND {}", k.min(k2), k.max(k2)), false),
        (format!("SELECT id FROM t WHERE a IN ({}, {}, NULL)", k, k2), false),
        (format!("SELECT id, a, b FROM t WHERE a = {} AND b = {}", k, rng.range(0, 4)), false),
        (format!("SELECT id, a, b FROM t WHERE a = {} AND b >= {}", k, rng.range(0, 4)), false),
        (format!("SELECT id FROM t WHERE c = '{}'", st), false),
        (format!("SELECT id FROM t WHERE c >= '{}'", st), false),
        (format!("SELECT id FROM t WHERE c LIKE '{}%'", &st[..1]), false),
        (format!("SELECT id FROM t WHERE u = {}", rng.range(1, 30) * 10), false),
        (format!("SELECT id FROM t WHERE k = 'k{:03}'", rng.range(1, 160)), false),
        (format!("SELECT id FROM t WHERE k = 'k{:03}'", rng.range(1, 160)), false),
        (format!("SELECT id FROM t WHERE k = 'k{:03}'", rng.range(1, 160)), false),
        (format!("SELECT id FROM t WHERE k IN ('k{:03}', 'k{:03}', 'zzz')", rng.range(1, 160), rng.range(1, 160)), false),
        (format!("SELECT id FROM t WHERE k >= 'k{:03}' AND k < 'k{:03}'", k * 20, k * 20 + 30), false),
        (format!("SELECT id FROM t WHERE k >= 'k{:03}' AND k < 'k{:03}' ORDER BY id", k * 20, k * 20 + rng.range(1, 40)), true),
        (format!("SELECT DISTINCT k FROM t WHERE k < 'k{:03}'", rng.range(1, 160)), false),
        (format!("SELECT id FROM t WHERE u < {} ORDER BY id", rng.range(1, 160) * 10), true),
        (format!("SELECT id FROM t WHERE u > {} AND u < {} ORDER BY id", rng.range(1, 80) * 10, rng.range(80, 160) * 10), true),
        ("SELECT k, id FROM t ORDER BY k, id".to_string(), true),
        ("SELECT a, id FROM t ORDER BY a, id".to_string(), true),
        ("SELECT c, id FROM t ORDER BY c DESC, id".to_string(), true),
        ("SELECT a, b, id FROM t WHERE a >= 1 ORDER BY a, b, id".to_string(), true),
        ("SELECT COUNT(*), MIN(a), MAX(a) FROM t".to_string(), false),
        ("SELECT a, COUNT(*) FROM t GROUP BY a".to_string(), false),
        ("SELECT id FROM t WHERE a IS NULL".to_string(), false),
        (format!("SELECT x.id, y.id FROM t AS x INNER JOIN t AS y ON x.a = y.b WHERE x.a = {}", k), false),
    ]
}

fn same(a: &Result<Vec<CRow>, String>, b: &Result<Vec<CRow>, String>, ordered: bool) -> bool {
    match (a, b) {
        (Ok(x), Ok(y)) => {
            if ordered {
                seq_eq(x, y, 0.0)
            } else {
                multiset_eq(x, y, 0.0)
            }
        }
        (Err(_), Err(_)) => true,
        _ => false,
    }
}

pub fn run(ctx: &mut Ctx) {
    let total = ctx.n(400, 12_000);
    let base = std::env::var("VV_RUN_TMP").unwrap_or_else(|_| "/tmp".to_string());
    for case in ctx.my_cases(total) {
        ctx.begin_case(case);
        let mut rng = ctx.rng(case);
        let dir = std::path::PathBuf::from(&base).join(format!("c16-{}-{}-{}", std::process::id(), ctx.seed, case));
        let _ = std::fs::remove_dir_all(&dir);
        std::fs::create_dir_all(&dir).expect("scratch dir");
        let mut mem = Session::new();
        let mut dsk = Session::with_db(spilling_db(&dir));
        let mut next_id = 0i64;
        let mut setup: Vec<String> = vec!["CREATE TABLE t (id INTEGER PRIMARY KEY, a INTEGER, b INTEGER, c VARCHAR(10), u INTEGER, k VARCHAR(10))".to_string()];
        let initial = *rng.pick(&[1i64, 3, 12, 40, 150]);
        for _ in 0..initial {
            next_id += 1;
            setup.push(format!("INSERT INTO t VALUES ({})", value_list(&mut rng, next_id)));
        }
        setup.push("CREATE INDEX ix_k ON t (k)".to_string());
        let mut ixs = vec!["CREATE INDEX ix_a ON t (a)", "CREATE INDEX ix_ab ON t (a, b)", "CREATE INDEX ix_c ON t (c)", "CREATE UNIQUE INDEX ix_u ON t (u)", "CREATE INDEX ix_b ON t (b)"];
        rng.shuffle(&mut ixs);
        let nix = rng.range(2, 5) as usize;
        setup.extend(ixs.iter().take(nix).map(|s| s.to_string()));
        let mut ok = true;
        for sql in &setup {
            let (a, b) = (mem.exec(sql), dsk.exec(sql));
            if a.is_err() != b.is_err() || a.is_panic() || b.is_panic() {
                let shape = if sql.starts_with("CREATE") { "create-index" } else { "insert" };
                let sig = if b.is_panic() { format!("panic:{}|{}", shape, panic_class(&b.brief())) } else { format!("outcome-differs:setup-{}", shape) };
                ctx.violation(case, sig, json!({"statement": sql, "in_memory": a.brief(), "disk_backed": b.brief(), "history": dsk.history_json()}));
                ok = false;
                break;
            }
        }
        if ok {
            if let Some((ix, detail)) = index_divergence(&mem, &dsk) {
                ctx.violation(case, format!("index-contents-differ:{}|after-create-index", ix.to_lowercase()), json!({"detail": detail, "history": dsk.history_json()}));
                ok = false;
            }
        }
        let (disk0, all0) = disk_backed(&dsk);
        let (diskm, _) = disk_backed(&mem);
        if diskm != 0 {
            ctx.notes.push("reference database unexpectedly has disk-backed indexes".into());
        }
        ctx.count("indexes-created", all0 as u64);
        ctx.count("indexes-disk-backed-after-setup", disk0 as u64);
        if ok {
            let steps = rng.range(6, 26);
            'hist: for step in 0..steps {
                let (sql, shape) = gen_dml(&mut rng, &mut next_id);
                let (a, b) = (mem.exec(&sql), dsk.exec(&sql));
                ctx.eval();
                let (dnow, anow) = disk_backed(&dsk);
                let backend = if dnow == 0 { "none-on-disk" } else if dnow == anow { "all-on-disk" } else { "some-on-disk" };
                if let Outcome::Panic(p) = &b {
                    ctx.violation(case, format!("panic:{}|{}", shape, panic_class(p)), json!({"statement": sql, "detail": p, "history": dsk.history_json()}));
                    break;
                }
                let same_outcome = match (&a, &b) {
                    (Outcome::Count(x), Outcome::Count(y)) => x == y,
                    (x, y) => x.is_err() == y.is_err(),
                };
                if !same_outcome {
                    ctx.violation(case, format!("outcome-differs:{}", shape), json!({"statement": sql, "in_memory": a.brief(), "disk_backed": b.brief(), "backend": backend, "history": dsk.history_json()}));
                    break;
                }
                if let Some((ix, detail)) = index_divergence(&mem, &dsk) {
                    ctx.violation(case, format!("index-contents-differ:{}|after-{}", ix.to_lowercase(), shape), json!({"statement": sql, "detail": detail, "backend": backend, "history": dsk.history_json()}));
                    break;
                }
                if let Some((what, detail)) = range_scan_divergence(&mem, &dsk, &mut rng) {
                    ctx.violation(case, format!("range-scan-differs:{}|after-{}", what, shape), json!({"statement": sql, "detail": detail, "backend": backend, "history": dsk.history_json()}));
                    break;
                }
                ctx.count("index-content-comparisons", anow as u64);
                ctx.nontrivial(format!("{}|{}|{}|initial-rows={}", shape, backend, if a.is_err() { "rejected" } else { "applied" }, initial));
                if step % 2 == 1 || step == steps - 1 {
                    let (rm, rd) = (mem.record, dsk.record);
                    mem.record = false;
                    dsk.record = false;
                    for (q, ordered) in probes(&mut rng) {
                        let (x, y) = (mem.query(&q), dsk.query(&q));
                        ctx.eval();
                        if dsk.hit("index_scan") {
                            ctx.count("probes-served-by-index-scan", 1);
                        }
                        if !same(&x, &y, ordered) {
                            let kind = q.split(" WHERE ").nth(1).map(|w| w.split(' ').take(2).collect::<Vec<_>>().join("-")).unwrap_or_else(|| "no-where".into());
                            let kind: String = kind.chars().filter(|c| !c.is_ascii_digit() && *c != '\'').collect();
                            let show = |r: &Result<Vec<CRow>, String>| match r {
                                Ok(v) => json!(show_rows(v, 30)),
                                Err(e) => json!(e),
                            };
                            ctx.violation(case, format!("result-differs:{}{}|after-{}", kind.to_lowercase(), if ordered { "-ordered" } else { "" }, shape), json!({"query": q, "in_memory": show(&x), "disk_backed": show(&y), "backend": backend, "after": sql, "raw_keys": raw_keys(&mem, &dsk), "history": dsk.history_json()}));
                            mem.record = rm;
                            dsk.record = rd;
                            break 'hist;
                        }
                    }
                    mem.record = rm;
                    dsk.record = rd;
                }
            }
            let mut hmax = 0;
            for n in dsk.db.list_indexes() {
                if let Some(IndexData::DiskBacked { btree, .. }) = dsk.db.get_index_data(&n) {
                    hmax = hmax.max(btree.lock().height());
                }
            }
            ctx.count(&format!("cases-with-max-tree-height:{}", hmax), 1);
            let (dend, aend) = disk_backed(&dsk);
            ctx.count("indexes-disk-backed-at-end", dend as u64);
            ctx.count("indexes-at-end", aend as u64);
        }
        ctx.sample(|| json!({"initial_rows": initial, "disk_backed_after_setup": disk0, "history": dsk.history_json()}));
        drop(dsk);
        let _ = std::fs::remove_dir_all(&dir);
    }
}
