//! C20 — loading damaged database files fails cleanly (fault enumeration over valid files).

use serde_json::json;
use vibesql_storage::Database;

use crate::core::alloc;
use crate::core::ctx::Ctx;
use crate::core::rng::Rng;
use crate::core::session::{guard, Session};
use crate::core::util::panic_class;

#[derive(Clone, Copy, PartialEq, Debug)]
enum Fmt {
    Binary,
    Compressed,
    Json,
    SqlDump,
}

impl Fmt {
    fn name(&self) -> &'static str {
        match self {
            Fmt::Binary => "binary",
            Fmt::Compressed => "compressed",
            Fmt::Json => "json",
            Fmt::SqlDump => "sqldump",
        }
    }
}

fn build_db(which: usize) -> Session {
    let mut s = Session::new();
    s.record = false;
    if which == 0 {
        s.must("CREATE TABLE t (id INTEGER PRIMARY KEY, name VARCHAR(20), x DOUBLE PRECISION)");
        s.must("INSERT INTO t VALUES (1, 'alice', 1.5), (2, NULL, 2.25), (3, 'it''s', NULL)");
        s.must("CREATE INDEX ix_name ON t (name)");
    } else {
        s.must("CREATE TABLE a (k INTEGER NOT NULL, d DATE, ts TIMESTAMP, b BOOLEAN, s BIGINT, c CHAR(3))");
        s.must("INSERT INTO a VALUES (7, DATE '2024-02-29', TIMESTAMP '2024-02-29 12:34:56', TRUE, 3, 'ab')");
        s.must("INSERT INTO a VALUES (8, NULL, NULL, FALSE, NULL, NULL)");
        s.must("CREATE TABLE e (z BIGINT, w VARCHAR(8) UNIQUE)");
        s.must("INSERT INTO e VALUES (9007199254740993, 'é日')");
        s.must("CREATE VIEW v AS SELECT k FROM a");
    }
    s
}

fn tmpdir() -> std::path::PathBuf {
    let d = std::env::temp_dir().join(format!("vverif_c20_{}", std::process::id()));
    let _ = std::fs::create_dir_all(&d);
    d
}

fn valid_files() -> Vec<(Fmt, usize, Vec<u8>)> {
    let dir = tmpdir();
    let mut out = Vec::new();
    for which in 0..2 {
        let s = build_db(which);
        for f in [Fmt::Binary, Fmt::Compressed, Fmt::Json, Fmt::SqlDump] {
            let p = dir.join(format!("valid_{}_{}", which, f.name()));
            let r = match f {
                Fmt::Binary => s.db.save_binary(&p).map_err(|e| e.to_string()),
                Fmt::Compressed => s.db.save_compressed(&p).map_err(|e| e.to_string()),
                Fmt::Json => s.db.save_json(&p).map_err(|e| e.to_string()),
                Fmt::SqlDump => s.db.save_sql_dump(&p).map_err(|e| e.to_string()),
            };
            if let Err(e) = r {
                panic!("harness: cannot produce valid {} file: {}", f.name(), e);
            }
            out.push((f, which, std::fs::read(&p).unwrap()));
            let _ = std::fs::remove_file(&p);
        }
    }
    out
}

struct Probe {
    path: std::path::PathBuf,
}

/// Load `bytes` as format `f` (explicit loader and, for native formats, the sniffing loader).
/// Returns a violation (sig, detail) or the outcome class.
fn load_once(p: &Probe, f: Fmt, bytes: &[u8], sniff: bool) -> Result<&'static str, (String, serde_json::Value)> {
    std::fs::write(&p.path, bytes).unwrap();
    alloc::reset_max();
    let path = p.path.clone();
    let r = guard(move || match (f, sniff) {
        (Fmt::SqlDump, _) => vibesql_executor::load_sql_dump(&path).map(|_| ()).map_err(|e| e.to_string()),
        (_, true) => Database::load(&path).map(|_| ()).map_err(|e| e.to_string()),
        (Fmt::Binary, _) => Database::load_binary(&path).map(|_| ()).map_err(|e| e.to_string()),
        (Fmt::Compressed, _) => Database::load_compressed(&path).map(|_| ()).map_err(|e| e.to_string()),
        (Fmt::Json, _) => Database::load_json(&path).map(|_| ()).map_err(|e| e.to_string()),
    });
    let max = alloc::max_request();
    let limit = (64usize << 20) + 16 * bytes.len();
    let loader = if sniff { "load" } else { f.name() };
    match r {
        Err(pn) => Err((format!("panic:{}:{}", loader, panic_class(&pn)), json!({"panic": pn}))),
        Ok(res) => {
            if max > limit {
                return Err((format!("oversized-allocation:{}", loader), json!({"largest_single_request_bytes": max, "file_bytes": bytes.len(), "limit": limit})));
            }
            Ok(if res.is_ok() { "loaded" } else { "error" })
        }
    }
}

pub fn run(ctx: &mut Ctx) {
    let files = valid_files();
    let dir = tmpdir();
    let probe = Probe { path: dir.join(format!("probe_{}", ctx.shard)) };
    // case space: section A = one case per (file, offset); section B = random byte strings
    let offsets: Vec<(usize, usize)> = files.iter().enumerate().flat_map(|(i, (_, _, b))| (0..=b.len()).map(move |o| (i, o))).collect();
    let n_a = offsets.len() as u64;
    let n_b = ctx.n(400, 40_000);
    ctx.count("valid_files", files.len() as u64);
    ctx.count("valid_file_bytes_total", files.iter().map(|f| f.2.len() as u64).sum());
    for case in ctx.my_cases(n_a + n_b) {
        let mut rng = ctx.rng(case);
        if case < n_a {
            let (fi, off) = offsets[case as usize];
            let (f, which, bytes) = &files[fi];
            ctx.begin_case_labeled(case, f.name());
            let mut muts: Vec<(String, Vec<u8>)> = Vec::new();
            muts.push(("truncate".into(), bytes[..off].to_vec()));
            if off < bytes.len() {
                // byte overwrites: extremes, every single-bit flip, small values (a length prefix
                // shrunk to a tiny number) and neighbours of the original value
                let orig = bytes[off];
                let mut vals: Vec<(String, u8)> = vec![("byte=0x00".into(), 0x00), ("byte=0xff".into(), 0xFF)];
                for k in 0..8u8 {
                    vals.push((format!("flip{}", k), orig ^ (1 << k)));
                }
                for d in 1..=3u8 {
                    vals.push(("dec".into(), orig.wrapping_sub(d)));
                    vals.push(("inc".into(), orig.wrapping_add(d)));
                }
                let small_max = if ctx.quick() { 12u8 } else { 40u8 };
                for v in 1..=small_max {
                    vals.push(("small".into(), v));
                }
                let mut seen = std::collections::BTreeSet::new();
                for (name, v) in vals {
                    if v == orig || !seen.insert(v) {
                        continue;
                    }
                    let mut b = bytes.clone();
                    b[off] = v;
                    muts.push((name, b));
                }
                // treat the bytes at this offset as a little-endian length field
                let stride_ok = !ctx.quick() || off % 2 == 0 || *f != Fmt::Json;
                if stride_ok && *f != Fmt::SqlDump {
                    for (w, vals) in [(4usize, vec![0u64, 1, 0x7fff_ffff, 0xffff_ffff]), (8usize, vec![0u64, 1, 0x7fff_ffff_ffff_ffff, 1 << 63, u64::MAX])] {
                        if off + w <= bytes.len() {
                            for v in vals {
                                let mut b = bytes.clone();
                                b[off..off + w].copy_from_slice(&v.to_le_bytes()[..w]);
                                muts.push((format!("len{}={:#x}", w * 8, v), b));
                            }
                        }
                    }
                }
                // insert / delete a byte (shifts everything after it)
                let mut b = bytes.clone();
                b.remove(off);
                muts.push(("delete-byte".into(), b));
                let mut b = bytes.clone();
                b.insert(off, rng.below(256) as u8);
                muts.push(("insert-byte".into(), b));
            }
            for (mname, data) in muts {
                for sniff in [false, true] {
                    if sniff && (*f == Fmt::SqlDump || !mname.starts_with("truncate") && off > 16) {
                        continue; // the sniffing loader differs only in how it reads the header
                    }
                    ctx.eval();
                    match load_once(&probe, *f, &data, sniff) {
                        Ok(outcome) => ctx.nontrivial(format!("{}:{}:{}:{}", f.name(), mname.split('=').next().unwrap_or(""), if sniff { "sniff" } else { "direct" }, outcome)),
                        Err((sig, mut detail)) => {
                            detail["format"] = json!(f.name());
                            detail["db"] = json!(which);
                            detail["offset"] = json!(off);
                            detail["mutation"] = json!(mname);
                            detail["file_len"] = json!(bytes.len());
                            ctx.violation(case, sig, detail);
                        }
                    }
                }
            }
            if off == 0 {
                ctx.sample(|| json!({"kind": "enumerated-file", "format": f.name(), "db": which, "bytes": bytes.len(), "mutations_per_offset": "truncate, 0x00, 0xFF, bit flips, 32/64-bit length overwrites, delete/insert byte"}));
            }
        } else {
            let f = [Fmt::Binary, Fmt::Compressed, Fmt::Json, Fmt::SqlDump][rng.usize(4)];
            ctx.begin_case_labeled(case, f.name());
            let data = random_bytes(&mut rng, f, &files);
            for sniff in [false, true] {
                if sniff && f == Fmt::SqlDump {
                    continue;
                }
                ctx.eval();
                match load_once(&probe, f, &data, sniff) {
                    Ok(outcome) => ctx.nontrivial(format!("{}:random:{}:{}", f.name(), if sniff { "sniff" } else { "direct" }, outcome)),
                    Err((sig, mut detail)) => {
                        detail["format"] = json!(f.name());
                        detail["bytes"] = json!(data.iter().take(200).collect::<Vec<_>>());
                        detail["len"] = json!(data.len());
                        ctx.violation(case, sig, detail);
                    }
                }
            }
        }
    }
    // exhaustive over the enumerated section iff this run was not a replay/restart subset
    ctx.exhaustive = ctx.only_case.is_none();
    let _ = std::fs::remove_file(&probe.path);
    if ctx.shard == 0 {
        ctx.notes.push(format!("section A enumerates every offset 0..=len of {} valid files ({} offsets)", files.len(), n_a));
    }
}

fn random_bytes(rng: &mut Rng, f: Fmt, files: &[(Fmt, usize, Vec<u8>)]) -> Vec<u8> {
    let valid: Vec<&Vec<u8>> = files.iter().filter(|x| x.0 == f).map(|x| &x.2).collect();
    let base = valid[rng.usize(valid.len())];
    match rng.below(5) {
        0 => (0..rng.range(0, 300)).map(|_| rng.below(256) as u8).collect(),
        1 => {
            // valid header, random tail
            let keep = rng.usize(base.len().min(64) + 1);
            let mut v = base[..keep].to_vec();
            v.extend((0..rng.range(0, 200)).map(|_| rng.below(256) as u8));
            v
        }
        2 => {
            // several random byte edits
            let mut v = base.clone();
            for _ in 0..rng.range(2, 8) {
                if v.is_empty() {
                    break;
                }
                let p = rng.usize(v.len());
                v[p] = rng.below(256) as u8;
            }
            v
        }
        3 => {
            // splice two valid files
            let other = valid[rng.usize(valid.len())];
            let (a, b) = (rng.usize(base.len() + 1), rng.usize(other.len() + 1));
            [&base[..a], &other[b..]].concat()
        }
        _ => {
            // repeated block (deep / long structures)
            let a = rng.usize(base.len());
            let b = (a + rng.range(1, 40) as usize).min(base.len());
            let mut v = base[..a].to_vec();
            for _ in 0..rng.range(2, 200) {
                v.extend_from_slice(&base[a..b]);
            }
            v.extend_from_slice(&base[b..]);
            v
        }
    }
}
