//! C21 — equality / ordering / hashing of SQL values are mutually consistent.

use std::cmp::Ordering;
use std::collections::hash_map::DefaultHasher;
use std::hash::{Hash, Hasher};

use serde_json::json;
use vibesql_storage::Row;
use vibesql_types::{Date, Interval, SqlValue, Time, Timestamp};

use crate::core::ctx::Ctx;
use crate::core::rng::Rng;
use crate::core::session::{guard, Session};

fn h(v: &SqlValue) -> u64 {
    let mut s = DefaultHasher::new();
    v.hash(&mut s);
    s.finish()
}

fn fclass(f: f64) -> &'static str {
    if f.is_nan() {
        "nan"
    } else if f == 0.0 {
        if f.is_sign_negative() {
            "-0"
        } else {
            "+0"
        }
    } else if f.is_infinite() {
        "inf"
    } else {
        "fin"
    }
}

/// Coarse class of a value: variant + special-value tag. Used in violation signatures.
pub fn class(v: &SqlValue) -> String {
    match v {
        SqlValue::Null => "Null".into(),
        SqlValue::Integer(_) => "Integer".into(),
        SqlValue::Smallint(_) => "Smallint".into(),
        SqlValue::Bigint(_) => "Bigint".into(),
        SqlValue::Unsigned(_) => "Unsigned".into(),
        SqlValue::Numeric(f) => format!("Numeric[{}]", fclass(*f)),
        SqlValue::Double(f) => format!("Double[{}]", fclass(*f)),
        SqlValue::Float(f) => format!("Float[{}]", fclass(*f as f64)),
        SqlValue::Real(f) => format!("Real[{}]", fclass(*f as f64)),
        SqlValue::Character(_) => "Character".into(),
        SqlValue::Varchar(_) => "Varchar".into(),
        SqlValue::Boolean(_) => "Boolean".into(),
        SqlValue::Date(_) => "Date".into(),
        SqlValue::Time(_) => "Time".into(),
        SqlValue::Timestamp(_) => "Timestamp".into(),
        SqlValue::Interval(_) => "Interval".into(),
    }
}

fn pair_sig(law: &str, a: &SqlValue, b: &SqlValue) -> String {
    let mut c = vec![class(a), class(b)];
    c.sort();
    format!("{}:{}", law, c.join(","))
}

pub fn pool(rng: &mut Rng, extra: usize) -> Vec<SqlValue> {
    use SqlValue::{Bigint, Boolean, Character, Double, Float, Integer, Null, Numeric, Real, Smallint, Unsigned, Varchar};
    let mut p = vec![Null];
    for i in [i64::MIN, i64::MIN + 1, -1, 0, 1, 2, i64::MAX - 1, i64::MAX] {
        p.push(Integer(i));
        p.push(Bigint(i));
    }
    for i in [i16::MIN, -1, 0, 1, i16::MAX] {
        p.push(Smallint(i));
    }
    for u in [0u64, 1, i64::MAX as u64, u64::MAX] {
        p.push(Unsigned(u));
    }
    let f64s = [
        f64::NAN,
        -f64::NAN,
        f64::from_bits(0x7ff8_0000_0000_0001),
        0.0,
        -0.0,
        f64::INFINITY,
        f64::NEG_INFINITY,
        f64::MIN_POSITIVE,
        5e-324,
        -5e-324,
        1.0,
        -1.0,
        1.5,
        f64::MAX,
        f64::MIN,
        9007199254740993.0,
    ];
    for f in f64s {
        p.push(Double(f));
        p.push(Numeric(f));
    }
    for f in [f32::NAN, -f32::NAN, 0.0f32, -0.0, f32::INFINITY, f32::NEG_INFINITY, 1.0, -1.0, f32::MAX, f32::MIN_POSITIVE] {
        p.push(Float(f));
        p.push(Real(f));
    }
    for s in ["", " ", "a", "A", "a ", "ab", "é", "e\u{301}", "\u{0}", "日本", "1", "01"] {
        p.push(Varchar(s.to_string()));
        p.push(Character(s.to_string()));
    }
    p.push(Boolean(true));
    p.push(Boolean(false));
    // (the parser validates only month and day: years far outside four digits are representable)
    for (y, m, d) in [(1, 1, 1), (1999, 12, 31), (2000, 1, 1), (2000, 2, 29), (9999, 12, 31), (-1, 1, 1), (2024, 1, 1), (4194304, 1, 1), (8390632, 1, 1), (8388608, 1, 1), (-4194304, 6, 15), (2147483647, 12, 31), (-2147483648, 1, 1), (65536, 1, 1)] {
        if let Ok(dt) = Date::new(y, m, d) {
            p.push(SqlValue::Date(dt));
            for (hh, mm, ss, ns) in [(0, 0, 0, 0), (23, 59, 59, 999_999_999), (12, 0, 0, 1)] {
                if let Ok(t) = Time::new(hh, mm, ss, ns) {
                    p.push(SqlValue::Timestamp(Timestamp::new(dt, t)));
                }
            }
        }
    }
    for (hh, mm, ss, ns) in [(0, 0, 0, 0), (0, 0, 0, 1), (23, 59, 59, 999_999_999), (12, 30, 0, 500_000_000)] {
        if let Ok(t) = Time::new(hh, mm, ss, ns) {
            p.push(SqlValue::Time(t));
        }
    }
    for s in [
        "1 YEAR", "12 MONTH", "1 MONTH", "30 DAY", "360 DAY", "1 DAY", "24 HOUR", "1 HOUR", "60 MINUTE", "3600 SECOND",
        "1 MINUTE", "60 SECOND", "0 DAY", "0 YEAR", "-1 DAY", "1-6 YEAR TO MONTH", "18 MONTH", "1 12:00:00 DAY TO SECOND",
        "36 HOUR", "1.5 SECOND", "garbage", "",
    ] {
        p.push(SqlValue::Interval(Interval::new(s.to_string())));
    }
    // random extras around interesting magnitudes
    for _ in 0..extra {
        match rng.below(8) {
            0 => p.push(Integer(rng.range(-3, 3))),
            1 => p.push(Double((rng.range(-4, 4) as f64) / 2.0)),
            2 => p.push(Numeric((rng.range(-4, 4) as f64) / 2.0)),
            3 => p.push(Varchar(["a", "b", "ab", "B", ""][rng.usize(5)].repeat(rng.usize(3)))),
            4 => {
                let u = ["YEAR", "MONTH", "DAY", "HOUR", "MINUTE", "SECOND"][rng.usize(6)];
                p.push(SqlValue::Interval(Interval::new(format!("{} {}", rng.range(0, 400), u))));
            }
            5 => p.push(Bigint(rng.range(-3, 3))),
            6 => p.push(Float(rng.range(-4, 4) as f32 / 2.0)),
            _ => {
                if let Ok(t) = Time::new(rng.below(24) as u8, rng.below(60) as u8, rng.below(60) as u8, rng.below(3) as u32) {
                    p.push(SqlValue::Time(t));
                }
            }
        }
    }
    p
}

pub fn run(ctx: &mut Ctx) {
    // case 0: exhaustive pairs + triples over the fixed pool; further cases: pool + random extras;
    // SQL-level consequences as separate cases.
    let total = ctx.n(6, 60);
    for case in ctx.my_cases(total) {
        ctx.begin_case(case);
        let mut rng = ctx.rng(case);
        if case % 2 == 0 {
            let extra = if case == 0 { 0 } else { 40 };
            let p = pool(&mut rng, extra);
            laws(ctx, case, &p);
            if case == 0 {
                ctx.exhaustive = true;
            }
        } else {
            sql_consequences(ctx, case, &mut rng);
        }
    }
}

fn laws(ctx: &mut Ctx, case: u64, p: &[SqlValue]) {
    let n = p.len();
    // precompute
    let res = guard(|| {
        let mut eq = vec![false; n * n];
        let mut cmp = vec![Ordering::Equal; n * n];
        for i in 0..n {
            for j in 0..n {
                eq[i * n + j] = p[i] == p[j];
                cmp[i * n + j] = p[i].cmp(&p[j]);
            }
        }
        let hs: Vec<u64> = p.iter().map(h).collect();
        (eq, cmp, hs)
    });
    let (eq, cmp, hs) = match res {
        Ok(x) => x,
        Err(m) => {
            ctx.violation(case, format!("panic:{}", m), json!({"what": "panic while comparing/hashing pool"}));
            return;
        }
    };
    let show = |v: &SqlValue| format!("{:?}", v);
    for i in 0..n {
        ctx.eval();
        ctx.nontrivial(format!("refl:{}", class(&p[i])));
        if !eq[i * n + i] {
            ctx.violation(case, pair_sig("eq-reflexive", &p[i], &p[i]), json!({"a": show(&p[i])}));
        }
        for j in 0..n {
            ctx.eval();
            let (a, b) = (&p[i], &p[j]);
            if i < j {
                ctx.nontrivial(format!("pair:{}|{}", class(a), class(b)));
            }
            if eq[i * n + j] != eq[j * n + i] {
                ctx.violation(case, pair_sig("eq-symmetric", a, b), json!({"a": show(a), "b": show(b)}));
            }
            if cmp[i * n + j] != cmp[j * n + i].reverse() {
                ctx.violation(case, pair_sig("cmp-antisymmetric", a, b), json!({"a": show(a), "b": show(b)}));
            }
            if (cmp[i * n + j] == Ordering::Equal) != eq[i * n + j] {
                ctx.violation(
                    case,
                    pair_sig(if eq[i * n + j] { "eq-but-cmp-unequal" } else { "cmp-equal-but-ne" }, a, b),
                    json!({"a": show(a), "b": show(b), "cmp": format!("{:?}", cmp[i*n+j]), "eq": eq[i*n+j]}),
                );
            }
            if eq[i * n + j] && hs[i] != hs[j] {
                ctx.violation(case, pair_sig("eq-implies-hash", a, b), json!({"a": show(a), "b": show(b)}));
            }
            if !a.is_null() && !b.is_null() {
                if let Some(o) = a.partial_cmp(b) {
                    if o != cmp[i * n + j] {
                        ctx.violation(case, pair_sig("partial-cmp-agrees", a, b), json!({"a": show(a), "b": show(b)}));
                    }
                }
            }
        }
    }
    // triples (exhaustive over this pool)
    let le = |x: usize, y: usize| cmp[x * n + y] != Ordering::Greater;
    for i in 0..n {
        for j in 0..n {
            let eij = eq[i * n + j];
            let lij = le(i, j);
            if !eij && !lij {
                continue;
            }
            for k in 0..n {
                if eij && eq[j * n + k] && !eq[i * n + k] {
                    ctx.violation(
                        case,
                        format!("eq-transitive:{}", { let mut c = vec![class(&p[i]), class(&p[j]), class(&p[k])]; c.sort(); c.join(",") }),
                        json!({"a": show(&p[i]), "b": show(&p[j]), "c": show(&p[k])}),
                    );
                }
                if lij && le(j, k) && !le(i, k) {
                    ctx.violation(
                        case,
                        format!("cmp-transitive:{}", { let mut c = vec![class(&p[i]), class(&p[j]), class(&p[k])]; c.sort(); c.join(",") }),
                        json!({"a": show(&p[i]), "b": show(&p[j]), "c": show(&p[k])}),
                    );
                }
            }
        }
    }
    ctx.evals((n * n * n) as u64);
    ctx.sample(|| json!({"kind": "law-pool", "pool_size": n, "first_values": p.iter().take(12).map(|v| format!("{:?}", v)).collect::<Vec<_>>()}));
}

/// DISTINCT / GROUP BY / UNION / index lookup must collapse exactly the values that are `==`.
fn sql_consequences(ctx: &mut Ctx, case: u64, rng: &mut Rng) {
    use SqlValue::{Double, Integer, Null, Varchar};
    let families: Vec<(&str, &str, Vec<SqlValue>)> = vec![
        ("double", "DOUBLE PRECISION", vec![Double(0.0), Double(-0.0), Double(1.0), Double(f64::NAN), Double(-f64::NAN), Double(f64::INFINITY), Double(1.5), Double(-1.5)]),
        ("integer", "INTEGER", vec![Integer(0), Integer(1), Integer(-1), Integer(i64::MAX), Integer(i64::MIN)]),
        ("varchar", "VARCHAR(20)", vec![Varchar("".into()), Varchar("a".into()), Varchar("A".into()), Varchar("a ".into()), Varchar("é".into())]),
        (
            "interval",
            "INTERVAL DAY",
            vec![
                SqlValue::Interval(vibesql_types::Interval::new("1 DAY".into())),
                SqlValue::Interval(vibesql_types::Interval::new("24 HOUR".into())),
                SqlValue::Interval(vibesql_types::Interval::new("2 DAY".into())),
                SqlValue::Interval(vibesql_types::Interval::new("1 MONTH".into())),
                SqlValue::Interval(vibesql_types::Interval::new("30 DAY".into())),
            ],
        ),
    ];
    let (fname, ty, vals) = &families[rng.usize(families.len())];
    let mut s = Session::new();
    let o = s.exec(&format!("CREATE TABLE t (id INTEGER, x {})", ty));
    if o.is_err() {
        ctx.count("sql_family_create_failed", 1);
        return;
    }
    // rows: each pool value 1..3 times, plus NULLs, shuffled
    let mut rows: Vec<SqlValue> = Vec::new();
    for v in vals {
        for _ in 0..rng.range(1, 3) {
            rows.push(v.clone());
        }
    }
    for _ in 0..rng.range(0, 2) {
        rows.push(Null);
    }
    rng.shuffle(&mut rows);
    for (i, v) in rows.iter().enumerate() {
        if let Err(e) = s.db.insert_row("T", Row::new(vec![Integer(i as i64), v.clone()])) {
            ctx.count("direct_insert_rejected", 1);
            let _ = e;
            return;
        }
    }
    let with_index = rng.chance(1, 2);
    if with_index {
        let _ = s.exec("CREATE INDEX ix ON t (x)");
    }
    // equivalence classes under `==`
    let mut reps: Vec<SqlValue> = Vec::new();
    let mut sizes: Vec<usize> = Vec::new();
    for v in &rows {
        if let Some(k) = reps.iter().position(|r| r == v) {
            sizes[k] += 1;
        } else {
            reps.push(v.clone());
            sizes.push(1);
        }
    }
    let classes = reps.len();
    let check = |ctx: &mut Ctx, s: &mut Session, sql: &str, kind: &str, expect: usize| {
        ctx.eval();
        match s.query(sql) {
            Ok(r) => {
                ctx.nontrivial(format!("sql:{}:{}:{}:idx={}", kind, fname, classes, with_index));
                if r.len() != expect {
                    ctx.violation(
                        case,
                        format!("sql-{}-classes:{}", kind, fname),
                        json!({"sql": sql, "rows_in_table": rows.iter().map(|v| format!("{:?}", v)).collect::<Vec<_>>(),
                               "expected_groups": expect, "got": r.len(), "history": s.history_json()}),
                    );
                }
            }
            Err(e) => {
                if e.starts_with("PANIC") {
                    ctx.violation(case, format!("sql-{}-panic:{}", kind, fname), json!({"sql": sql, "err": e}));
                } else {
                    ctx.count("sql_error", 1);
                }
            }
        }
    };
    check(ctx, &mut s, "SELECT DISTINCT x FROM t", "distinct", classes);
    check(ctx, &mut s, "SELECT x, COUNT(*) FROM t GROUP BY x", "groupby", classes);
    check(ctx, &mut s, "SELECT x FROM t UNION SELECT x FROM t", "union", classes);
    // group sizes must match class sizes (as multiset)
    ctx.eval();
    if let Ok(r) = s.query("SELECT COUNT(*) FROM t GROUP BY x") {
        let mut got: Vec<i128> = r.iter().filter_map(|row| match &row[0] { crate::core::canon::Canon::Int(i) => Some(*i), _ => None }).collect();
        let mut exp: Vec<i128> = sizes.iter().map(|x| *x as i128).collect();
        got.sort();
        exp.sort();
        if got != exp {
            ctx.violation(case, format!("sql-groupby-sizes:{}", fname), json!({"expected": exp, "got": got, "history": s.history_json()}));
        }
    }
    ctx.sample(|| json!({"kind": "sql-consequence", "family": fname, "rows": rows.len(), "classes": classes, "index": with_index}));
}
