//! C05 — join order / algorithm / subquery rewrites preserve meaning (rewrite families + nested model).

use serde_json::json;

use crate::core::canon::{multiset_eq, show_rows, CRow, Canon};
use crate::core::ctx::Ctx;
use crate::core::rng::Rng;
use crate::core::session::Outcome;
use crate::gen::ast::{Table, V};
use crate::gen::build::gen_tables;
use crate::gen::dual::{load_vibe, tables_json};

fn vint(v: &V) -> Option<i64> {
    if let V::Int(i) = v { Some(*i) } else { None }
}

/// 3VL equality of two INTEGER cells: Some(true/false) or None (unknown)
fn eq3(a: &V, b: &V) -> Option<bool> {
    match (vint(a), vint(b)) {
        (Some(x), Some(y)) => Some(x == y),
        _ => None,
    }
}

struct Family {
    name: &'static str,
    members: Vec<String>,
    expected: Vec<CRow>,
}

fn col_idx(c: &str) -> usize {
    match c {
        "id" => 0,
        "a" => 1,
        "b" => 2,
        _ => 3,
    }
}

fn gen_family(rng: &mut Rng, tables: &[Table]) -> Family {
    let tx = &tables[rng.usize(tables.len())];
    let ty = &tables[rng.usize(tables.len())];
    let (cx, cy) = (*rng.pick(&["a", "b", "a"]), *rng.pick(&["a", "b", "id"]));
    let (ix, iy) = (col_idx(cx), col_idx(cy));
    let k = rng.range(-1, 3);
    let extra = rng.chance(1, 3);
    // derived-table wrapping of either side
    let wrap = |t: &Table, alias: &str, on: bool| if on { format!("(SELECT id, a, b, c FROM {}) AS {}", t.name, alias) } else { format!("{} AS {}", t.name, alias) };
    let (wx, wy) = (rng.chance(1, 4), rng.chance(1, 4));
    let (fx, fy) = (wrap(tx, "x", wx), wrap(ty, "y", wy));
    let extra_sql = if extra { format!(" AND x.b > {}", k) } else { String::new() };
    let extra_ok = |r: &Vec<V>| !extra || vint(&r[2]).map_or(false, |b| b > k);
    let int = |i: i64| Canon::Int(i as i128);
    match rng.below(8) {
        7 => {
            // semi join against a subquery that keeps only its first n values: the rewrite into a
            // join must not lose ORDER BY / LIMIT (ties do not matter: equal values are one member)
            let n = rng.range(0, 3) as usize;
            let desc = rng.chance(1, 2);
            let sub = format!("SELECT y.{} FROM {} AS y WHERE y.{} IS NOT NULL ORDER BY y.{}{} LIMIT {}", cy, ty.name, cy, cy, if desc { " DESC" } else { "" }, n);
            let members = vec![
                format!("SELECT x.id FROM {} WHERE x.{} IN ({}){}", fx, cx, sub, extra_sql),
                format!("SELECT x.id FROM {} WHERE x.{} IN (SELECT d.v FROM (SELECT y.{} AS v FROM {} AS y WHERE y.{} IS NOT NULL ORDER BY y.{}{} LIMIT {}) AS d){}", fx, cx, cy, ty.name, cy, cy, if desc { " DESC" } else { "" }, n, extra_sql),
                format!("SELECT x.id FROM {} WHERE{} x.{} IN ({})", fx, if extra { format!(" x.b > {} AND", k) } else { String::new() }, cx, sub),
            ];
            let mut vals: Vec<i64> = ty.rows.iter().filter_map(|ry| vint(&ry[iy])).collect();
            vals.sort();
            if desc {
                vals.reverse();
            }
            vals.truncate(n);
            let expected = tx.rows.iter().filter(|rx| vint(&rx[ix]).map_or(false, |v| vals.contains(&v)) && extra_ok(rx)).map(|rx| vec![int(vint(&rx[0]).unwrap())]).collect();
            Family { name: "semi-join-limited-subquery", members, expected }
        }
        4 => {
            // correlated NOT IN: for each x the subquery ranges over the y rows with y.b = x.b
            let members = vec![
                format!("SELECT x.id FROM {} WHERE x.{} NOT IN (SELECT y.{} FROM {} WHERE y.b = x.b){}", fx, cx, cy, fy, extra_sql),
                format!("SELECT x.id FROM {} WHERE NOT EXISTS (SELECT 1 FROM {} WHERE y.b = x.b AND (y.{} = x.{} OR y.{} IS NULL OR x.{} IS NULL)){}", fx, fy, cy, cx, cy, cx, extra_sql),
                format!("SELECT x.id FROM {} WHERE NOT (x.{} IN (SELECT y.{} FROM {} WHERE y.b = x.b)){}", fx, cx, cy, fy, extra_sql),
            ];
            let expected = tx
                .rows
                .iter()
                .filter(|rx| ty.rows.iter().filter(|ry| eq3(&rx[2], &ry[2]) == Some(true)).all(|ry| eq3(&rx[ix], &ry[iy]) == Some(false)) && extra_ok(rx))
                .map(|rx| vec![int(vint(&rx[0]).unwrap())])
                .collect();
            Family { name: "anti-join-not-in-correlated", members, expected }
        }
        5 | 6 => {
            // compound join conditions: an equi-join OR / AND a one-sided filter, written in ON
            // (where the join algorithm is chosen from the condition) and as cross join + WHERE
            let v = rng.range(-1, 4);
            let fc = *rng.pick(&["a", "b"]);
            let fi = col_idx(fc);
            let side_x = rng.chance(1, 2);
            let filter_sql = format!("{}.{} {} {}", if side_x { "x" } else { "y" }, fc, rng.pick(&["=", "="]), v);
            let or = rng.chance(2, 3);
            let cond = if or { format!("x.{} = y.{} OR {}", cx, cy, filter_sql) } else { format!("x.{} = y.{} AND {}", cx, cy, filter_sql) };
            let members = vec![
                format!("SELECT x.id, y.id FROM {} INNER JOIN {} ON {}", fx, fy, cond),
                format!("SELECT x.id, y.id FROM {} INNER JOIN {} ON {}", fy, fx, cond),
                format!("SELECT x.id, y.id FROM {}, {} WHERE {}", fx, fy, cond),
                format!("SELECT x.id, y.id FROM {} CROSS JOIN {} WHERE ({})", fx, fy, cond),
            ];
            let mut expected = Vec::new();
            for rx in &tx.rows {
                for ry in &ty.rows {
                    let e = eq3(&rx[ix], &ry[iy]);
                    let f = vint(&(if side_x { rx } else { ry })[fi]).map(|b| b == v);
                    // three-valued OR / AND: the pair qualifies only when the result is TRUE
                    let keep = if or { e == Some(true) || f == Some(true) } else { e == Some(true) && f == Some(true) };
                    if keep {
                        expected.push(vec![int(vint(&rx[0]).unwrap()), int(vint(&ry[0]).unwrap())]);
                    }
                }
            }
            Family { name: if or { "inner-join-on-or" } else { "inner-join-on-and" }, members, expected }
        }
        0 => {
            // inner equi-join written five ways
            let cond = format!("x.{} = y.{}", cx, cy);
            let members = vec![
                format!("SELECT x.id, y.id FROM {}, {} WHERE {}{}", fx, fy, cond, extra_sql),
                format!("SELECT x.id, y.id FROM {}, {} WHERE {}{}", fy, fx, cond, extra_sql),
                format!("SELECT x.id, y.id FROM {} INNER JOIN {} ON {}{}", fx, fy, cond, if extra { format!(" WHERE x.b > {}", k) } else { String::new() }),
                format!("SELECT x.id, y.id FROM {} CROSS JOIN {} WHERE {}{}", fx, fy, cond, extra_sql),
                format!("SELECT x.id, y.id FROM {} INNER JOIN {} ON y.{} = x.{}{}", fy, fx, cy, cx, if extra { format!(" WHERE x.b > {}", k) } else { String::new() }),
            ];
            let mut expected = Vec::new();
            for rx in &tx.rows {
                for ry in &ty.rows {
                    if eq3(&rx[ix], &ry[iy]) == Some(true) && extra_ok(rx) {
                        expected.push(vec![int(vint(&rx[0]).unwrap()), int(vint(&ry[0]).unwrap())]);
                    }
                }
            }
            Family { name: "inner-join", members, expected }
        }
        1 => {
            // semi join
            let members = vec![
                format!("SELECT x.id FROM {} WHERE x.{} IN (SELECT y.{} FROM {}){}", fx, cx, cy, fy, extra_sql),
                format!("SELECT x.id FROM {} WHERE EXISTS (SELECT 1 FROM {} WHERE y.{} = x.{}){}", fx, fy, cy, cx, extra_sql),
                format!("SELECT x.id FROM {} WHERE x.{} = ANY (SELECT y.{} FROM {}){}", fx, cx, cy, fy, extra_sql),
                format!("SELECT DISTINCT x.id FROM {} INNER JOIN {} ON x.{} = y.{}{}", fx, fy, cx, cy, if extra { format!(" WHERE x.b > {}", k) } else { String::new() }),
            ];
            let expected = tx.rows.iter().filter(|rx| ty.rows.iter().any(|ry| eq3(&rx[ix], &ry[iy]) == Some(true)) && extra_ok(rx)).map(|rx| vec![int(vint(&rx[0]).unwrap())]).collect();
            Family { name: "semi-join", members, expected }
        }
        2 => {
            // anti join with NOT IN semantics (NULL-aware)
            let members = vec![
                format!("SELECT x.id FROM {} WHERE x.{} NOT IN (SELECT y.{} FROM {}){}", fx, cx, cy, fy, extra_sql),
                format!("SELECT x.id FROM {} WHERE NOT EXISTS (SELECT 1 FROM {} WHERE y.{} = x.{} OR y.{} IS NULL OR x.{} IS NULL){}", fx, fy, cy, cx, cy, cx, extra_sql),
                format!("SELECT x.id FROM {} WHERE NOT (x.{} IN (SELECT y.{} FROM {})){}", fx, cx, cy, fy, extra_sql),
            ];
            let expected = tx
                .rows
                .iter()
                .filter(|rx| ty.rows.iter().all(|ry| eq3(&rx[ix], &ry[iy]) == Some(false)) && extra_ok(rx))
                .map(|rx| vec![int(vint(&rx[0]).unwrap())])
                .collect();
            Family { name: "anti-join-not-in", members, expected }
        }
        _ => {
            // anti join with NOT EXISTS semantics
            let members = vec![
                format!("SELECT x.id FROM {} WHERE NOT EXISTS (SELECT 1 FROM {} WHERE y.{} = x.{}){}", fx, fy, cy, cx, extra_sql),
                format!("SELECT x.id FROM {} LEFT JOIN {} ON x.{} = y.{} WHERE y.id IS NULL{}", fx, fy, cx, cy, extra_sql),
                format!("SELECT x.id FROM {} WHERE (SELECT COUNT(*) FROM {} WHERE y.{} = x.{}) = 0{}", fx, fy, cy, cx, extra_sql),
            ];
            let expected = tx
                .rows
                .iter()
                .filter(|rx| !ty.rows.iter().any(|ry| eq3(&rx[ix], &ry[iy]) == Some(true)) && extra_ok(rx))
                .map(|rx| vec![int(vint(&rx[0]).unwrap())])
                .collect();
            Family { name: "anti-join-not-exists", members, expected }
        }
    }
}

pub fn run(ctx: &mut Ctx) {
    let total = ctx.n(400, 30_000);
    for case in ctx.my_cases(total) {
        ctx.begin_case(case);
        let mut rng = ctx.rng(case);
        let tables = gen_tables(&mut rng, 3, 7);
        let mut s = load_vibe(&tables);
        let mut indexes = Vec::new();
        for t in &tables {
            for c in ["a", "b", "id"] {
                if rng.chance(1, 4) {
                    indexes.push(format!("CREATE INDEX ix_{}_{} ON {} ({})", t.name, c, t.name, c));
                }
            }
        }
        for ix in &indexes {
            let _ = s.exec(ix);
        }
        for _ in 0..8 {
            let fam = gen_family(&mut rng, &tables);
            let mut algos = std::collections::BTreeSet::new();
            let mut results: Vec<(String, Result<Vec<CRow>, String>)> = Vec::new();
            for m in &fam.members {
                ctx.eval();
                let o = s.exec(m);
                for p in s.last_probes.keys() {
                    if ["hash_join_inner", "hash_semi_join", "hash_anti_join", "nl_equijoin", "nl_classic", "nl_semi_join", "nl_anti_join", "subquery_to_join", "join_reorder", "index_in_subquery", "index_scan"].contains(p) {
                        algos.insert(*p);
                    }
                }
                results.push((m.clone(), match o {
                    Outcome::Rows(r) => Ok(r),
                    Outcome::Panic(p) => Err(format!("PANIC {}", p)),
                    Outcome::Err(e) => Err(e),
                    o => Err(o.brief()),
                }));
            }
            let data_null = tables.iter().any(|t| t.rows.iter().any(|r| r.iter().any(|v| *v == V::Null)));
            let mut bad: Vec<(usize, String)> = Vec::new();
            for (i, (_, r)) in results.iter().enumerate() {
                match r {
                    Ok(rows) => {
                        if !multiset_eq(rows, &fam.expected, 0.0) {
                            let kind = if rows.len() < fam.expected.len() { "missing-rows" } else if rows.len() > fam.expected.len() { "extra-rows" } else { "wrong-rows" };
                            bad.push((i, kind.to_string()));
                        }
                    }
                    Err(e) if e.starts_with("PANIC") => bad.push((i, format!("panic:{}", crate::core::util::panic_class(e)))),
                    Err(_) => {
                        ctx.count(&format!("member_error:{}:{}", fam.name, i), 1);
                    }
                }
            }
            if bad.is_empty() {
                ctx.nontrivial(format!("{}|algos={}|nulls={}|rows={}", fam.name, algos.iter().cloned().collect::<Vec<_>>().join("+"), data_null, fam.expected.len().min(3)));
                for a in &algos {
                    ctx.count(&format!("probe:{}", a), 1);
                }
                let name = fam.name;
                let members = fam.members.clone();
                ctx.sample(|| json!({"family": name, "members": members}));
            } else {
                for (i, kind) in bad {
                    ctx.violation(
                        case,
                        format!("{}:member{}:{}|nulls={}", fam.name, i, kind, data_null),
                        json!({"family": fam.name, "member_sql": results[i].0, "got": results[i].1.as_ref().map(|r| show_rows(r, 16)).map_err(|e| e.clone()), "definition": show_rows(&fam.expected, 16),
                               "all_members": results.iter().map(|(m, r)| json!({"sql": m, "rows": r.as_ref().map(|x| x.len() as i64).unwrap_or(-1)})).collect::<Vec<_>>(), "tables": tables_json(&tables), "indexes": indexes}),
                    );
                }
            }
        }
    }
}
