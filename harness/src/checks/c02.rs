//! C02 — query results do not depend on which secondary indexes exist (twin databases).

use serde_json::json;

use crate::core::canon::{multiset_eq, seq_eq, show_rows, CRow, Canon};
use crate::core::ctx::Ctx;
use crate::core::rng::Rng;
use crate::core::session::{Outcome, Session};
use crate::core::util::panic_class;

struct IndexDef {
    sql: String,
    kind: &'static str,
}

fn gen_indexes(rng: &mut Rng) -> Vec<IndexDef> {
    let pool: Vec<(&str, &str)> = vec![
        ("CREATE INDEX ix_a ON t (a)", "single"),
        ("CREATE INDEX ix_c ON t (c)", "single-text"),
        ("CREATE INDEX ix_ab ON t (a, b)", "multi"),
        ("CREATE INDEX ix_ca ON t (c, a)", "multi-text"),
        ("CREATE INDEX ix_c2 ON t (c(2))", "prefix"),
        ("CREATE INDEX ix_ad ON t (a DESC)", "desc"),
        ("CREATE INDEX ix_adb ON t (a DESC, b)", "desc-multi"),
        ("CREATE UNIQUE INDEX ux_u ON t (u)", "unique"),
        ("CREATE INDEX ix_b ON t (b)", "single-b"),
        ("CREATE UNIQUE INDEX ux_au ON t (a, u)", "unique-multi"),
    ];
    let n = if rng.chance(2, 3) { 1 } else { rng.range(2, 3) as usize };
    let mut picks: Vec<usize> = (0..pool.len()).collect();
    rng.shuffle(&mut picks);
    // at most one index per leading column set to keep the case readable
    picks.truncate(n);
    picks.into_iter().map(|i| IndexDef { sql: pool[i].0.to_string(), kind: pool[i].1 }).collect()
}

fn lit_int(rng: &mut Rng, present: &[i64]) -> String {
    let (lo, hi) = (present.iter().min().copied().unwrap_or(0), present.iter().max().copied().unwrap_or(0));
    match rng.below(12) {
        0 => "NULL".into(),
        1 => (lo - 1).to_string(),
        2 => lo.to_string(),
        3 => hi.to_string(),
        4 => (hi + 1).to_string(),
        5 => "1.5".into(),
        6 => "2.0".into(),
        7 => "9223372036854775807".into(),
        8 => "-9223372036854775807".into(),
        _ => {
            if present.is_empty() {
                rng.range(-3, 6).to_string()
            } else {
                present[rng.usize(present.len())].to_string()
            }
        }
    }
}

fn lit_text(rng: &mut Rng) -> String {
    format!("'{}'", rng.pick(&["", "a", "ab", "abc", "abd", "ac", "b", "B", "abcd", "zz"]))
}

const TEXT_VALS: [&str; 8] = ["a", "ab", "abc", "abd", "ac", "b", "", "abcd"];

fn cmp_op(rng: &mut Rng) -> &'static str {
    *rng.pick(&["=", "<", "<=", ">", ">=", "<>"])
}

fn gen_pred(rng: &mut Rng, ints: &[i64], depth: u32) -> (String, String) {
    if rng.chance(1, 8) {
        // two range comparisons on the same (indexed) column, including pairs bounding the same
        // side (a > 5 AND a > 10) and a bound that is not a literal
        let col = *rng.pick(&["a", "a", "u", "b"]);
        let ops = ["<", "<=", ">", ">="];
        let (o1, o2) = (*rng.pick(&ops), *rng.pick(&ops));
        let rhs2 = if rng.chance(1, 6) { "b".to_string() } else { lit_int(rng, ints) };
        let (l, r) = (format!("{} {} {}", col, o1, lit_int(rng, ints)), format!("{} {} {}", col, o2, rhs2));
        return if rng.chance(1, 2) { (format!("{} AND {}", l, r), "range-pair-same-column".into()) } else { (format!("{} AND {}", r, l), "range-pair-same-column".into()) };
    }
    match rng.below(if depth == 0 { 7 } else { 10 }) {
        0 | 1 => {
            let col = *rng.pick(&["a", "a", "b", "u"]);
            let op = cmp_op(rng);
            (format!("{} {} {}", col, op, lit_int(rng, ints)), format!("cmp{}", op))
        }
        2 => {
            let op = cmp_op(rng);
            (format!("c {} {}", op, lit_text(rng)), format!("text{}", op))
        }
        3 => {
            let (x, y) = (lit_int(rng, ints), lit_int(rng, ints));
            (format!("a BETWEEN {} AND {}", x, y), "between".into())
        }
        4 => {
            let n = rng.range(1, 4);
            let v: Vec<String> = (0..n).map(|_| lit_int(rng, ints)).collect();
            (format!("a IN ({})", v.join(", ")), "in".into())
        }
        5 => {
            let v: Vec<String> = (0..rng.range(1, 3)).map(|_| lit_text(rng)).collect();
            (format!("c IN ({})", v.join(", ")), "in-text".into())
        }
        6 => (format!("{} IS {}NULL", rng.pick(&["a", "c"]), if rng.chance(1, 2) { "NOT " } else { "" }), "isnull".into()),
        7 | 8 => {
            let (l, lk) = gen_pred(rng, ints, depth - 1);
            let (r, rk) = gen_pred(rng, ints, depth - 1);
            (format!("({} AND {})", l, r), format!("and[{},{}]", lk, rk))
        }
        _ => {
            let (l, lk) = gen_pred(rng, ints, depth - 1);
            let (r, rk) = gen_pred(rng, ints, depth - 1);
            (format!("({} OR {})", l, r), format!("or[{},{}]", lk, rk))
        }
    }
}

/// Harness comparator for ORDER BY checks: NULLs last for both directions.
fn key_cmp(a: &Canon, b: &Canon, desc: bool) -> std::cmp::Ordering {
    use std::cmp::Ordering::*;
    match (a.is_null(), b.is_null()) {
        (true, true) => Equal,
        (true, false) => Greater,
        (false, true) => Less,
        _ => {
            let c = a.total_cmp(b);
            if desc {
                c.reverse()
            } else {
                c
            }
        }
    }
}

pub fn sorted_by(rows: &[CRow], keys: &[(usize, bool)]) -> bool {
    rows.windows(2).all(|w| {
        for (i, desc) in keys {
            match key_cmp(&w[0][*i], &w[1][*i], *desc) {
                std::cmp::Ordering::Less => return true,
                std::cmp::Ordering::Greater => return false,
                _ => {}
            }
        }
        true
    })
}

/// Root-cause classes for discrepancies (canonical names for listed findings), else a specific signature.
fn classify(x: &[CRow], y: &[CRow], same_rows: bool, keys: &[(usize, bool)], pred: &str, use_where: bool, idx_kinds: &[&str], sig_tail: &str) -> String {
    let col_idx = |c: &str| match c {
        "id" => 0,
        "a" => 1,
        "b" => 2,
        "u" => 4,
        _ => 3,
    };
    if same_rows || multiset_eq(x, y, 0.0) {
        // only the order is wrong: is it "NULLs first" (index key order) instead of NULLs last?
        let nulls_first_sorted = x.windows(2).all(|w| {
            for (i, desc) in keys {
                let (p, q) = (&w[0][*i], &w[1][*i]);
                let c = match (p.is_null(), q.is_null()) {
                    (true, true) => std::cmp::Ordering::Equal,
                    (true, false) => std::cmp::Ordering::Less,
                    (false, true) => std::cmp::Ordering::Greater,
                    _ => {
                        let c = p.total_cmp(q);
                        if *desc { c.reverse() } else { c }
                    }
                };
                match c {
                    std::cmp::Ordering::Less => return true,
                    std::cmp::Ordering::Greater => return false,
                    _ => {}
                }
            }
            true
        });
        if nulls_first_sorted {
            return "order:nulls-first-when-order-comes-from-index".into();
        }
        return format!("not-sorted|{}", sig_tail);
    }
    let mut extra: Vec<&CRow> = Vec::new();
    let mut rest: Vec<&CRow> = y.iter().collect();
    for r in x {
        if let Some(p) = rest.iter().position(|q| crate::core::canon::rows_eq(q, r, 0.0)) {
            rest.remove(p);
        } else {
            extra.push(r);
        }
    }
    let missing = rest;
    let pred_cols: Vec<usize> = if use_where { ["a", "b", "c", "u"].iter().filter(|c| pred.contains(&format!("{} ", c)) || pred.contains(&format!("({} ", c))).map(|c| col_idx(c)).collect() } else { vec![] };
    if missing.is_empty() && !extra.is_empty() {
        if extra.iter().all(|r| y.iter().any(|q| crate::core::canon::rows_eq(q, r, 0.0))) {
            return "extra-rows:row-returned-more-than-once".into();
        }
        if extra.iter().all(|r| pred_cols.iter().any(|i| *i < 5 && r[*i].is_null()) || (pred.contains("u ") )) {
            return "extra-rows:null-key-matched-by-index-range".into();
        }
    }
    if idx_kinds.contains(&"prefix") && pred.contains("c ") {
        return format!("prefix-index:{}", if extra.is_empty() { "missing-rows" } else { "wrong-rows" });
    }
    let kind = if !extra.is_empty() && missing.is_empty() { "extra-rows" } else if extra.is_empty() { "missing-rows" } else { "wrong-rows" };
    format!("{}|{}", kind, sig_tail)
}

pub fn run(ctx: &mut Ctx) {
    let total = ctx.n(900, 60_000);
    for case in ctx.my_cases(total) {
        ctx.begin_case(case);
        let mut rng = ctx.rng(case);
        one_case(ctx, case, &mut rng);
    }
}

fn one_case(ctx: &mut Ctx, case: u64, rng: &mut Rng) {
    let with_pk = rng.chance(1, 2);
    let create = format!("CREATE TABLE t (id INTEGER{}, a INTEGER, b INTEGER, c VARCHAR(20), u INTEGER)", if with_pk { " PRIMARY KEY" } else { "" });
    let mut a = Session::new();
    let mut b = Session::new();
    a.must(&create);
    b.must(&create);
    let indexes = gen_indexes(rng);
    let before_data = rng.chance(1, 2);
    let mut idx_kinds: Vec<&str> = indexes.iter().map(|i| i.kind).collect();
    idx_kinds.sort();
    let apply_indexes = |a: &mut Session, ctx: &mut Ctx| -> bool {
        for ix in &indexes {
            let o = a.exec(&ix.sql);
            if let Outcome::Panic(p) = &o {
                ctx.violation(case, format!("panic:create-index:{}", panic_class(p)), json!({"history": a.history_json()}));
                return false;
            }
            if o.is_err() {
                ctx.count("create_index_rejected", 1);
            }
        }
        true
    };
    if before_data && !apply_indexes(&mut a, ctx) {
        return;
    }
    // data + DML history, applied to A first; a statement A rejects is not applied to B
    let mut next_id = 1i64;
    let mut ints: Vec<i64> = Vec::new();
    let null_pct = *rng.pick(&[0u64, 15, 40]);
    // "duplicate-friendly" data: few distinct a values and many NULL u, so that several rows share a
    // (partly NULL) key of a UNIQUE / composite index
    let dup_mode = rng.chance(1, 3);
    let n_stmts = rng.range(3, 14);
    let mut dml_after = false;
    for step in 0..n_stmts {
        let sql = match if step < 3 { 0 } else { rng.below(8) } {
            0..=3 => {
                let av = if rng.chance(null_pct, 100) { "NULL".to_string() } else if dup_mode { rng.range(1, 2).to_string() } else { rng.range(-3, 6).to_string() };
                let bv = if rng.chance(null_pct, 100) { "NULL".to_string() } else { rng.range(-3, 6).to_string() };
                let cv = if rng.chance(null_pct, 100) { "NULL".to_string() } else { format!("'{}'", rng.pick(&TEXT_VALS)) };
                let uv = if rng.chance(if dup_mode { 4 } else { 1 }, 6) { "NULL".to_string() } else if rng.chance(1, 8) { rng.range(1, next_id.max(1)).to_string() } else { (100 + next_id).to_string() };
                if let Ok(v) = av.parse::<i64>() {
                    ints.push(v);
                }
                let s = format!("INSERT INTO t SELECT {}, {}, {}, {}, {}", next_id, av, bv, cv, uv);
                next_id += 1;
                s
            }
            4 | 5 => {
                dml_after = true;
                let set = match rng.below(6) {
                    4 => "u = NULL".to_string(),
                    5 => format!("u = {}", 500 + step),
                    0 => format!("a = {}", rng.range(-3, 6)),
                    1 => "a = NULL".to_string(),
                    2 => format!("c = '{}'", rng.pick(&TEXT_VALS)),
                    _ => format!("a = a + 1, b = {}", rng.range(-3, 6)),
                };
                let (p, _) = gen_pred(rng, &ints, 0);
                let p = if rng.chance(1, 3) { format!("id = {}", rng.range(1, next_id.max(1))) } else { p };
                format!("UPDATE t SET {} WHERE {}", set, p)
            }
            _ => {
                dml_after = true;
                let (p, _) = gen_pred(rng, &ints, 0);
                format!("DELETE FROM t WHERE {}", p)
            }
        };
        let oa = a.exec(&sql);
        if let Outcome::Panic(p) = &oa {
            ctx.violation(case, format!("panic:dml:{}", panic_class(p)), json!({"history": a.history_json(), "indexes": idx_kinds}));
            return;
        }
        if oa.is_err() {
            ctx.count("dml_rejected_on_indexed_twin", 1);
            continue;
        }
        let ob = b.exec(&sql);
        if ob.is_err() {
            // B (no user indexes) rejects what A accepted: the data now differs; end of case
            ctx.count("dml_rejected_on_plain_twin_only", 1);
            return;
        }
        if let (Outcome::Count(x), Outcome::Count(y)) = (&oa, &ob) {
            if x != y {
                ctx.violation(case, format!("dml-count-differs:{}", sql.split_whitespace().next().unwrap_or("")), json!({"sql": sql, "with_indexes": x, "without": y, "history": a.history_json(), "indexes": idx_kinds}));
                return;
            }
        }
    }
    if !before_data && !apply_indexes(&mut a, ctx) {
        return;
    }
    // table contents must be equal
    ctx.eval();
    let (ra, rb) = (a.query("SELECT id, a, b, c, u FROM t"), b.query("SELECT id, a, b, c, u FROM t"));
    match (&ra, &rb) {
        (Ok(x), Ok(y)) if multiset_eq(x, y, 0.0) => {}
        _ => {
            ctx.violation(case, "table-contents-differ", json!({"history": a.history_json(), "with_indexes": format!("{:?}", ra.as_ref().map(|r| show_rows(r, 20))), "without": format!("{:?}", rb.as_ref().map(|r| show_rows(r, 20))), "indexes": idx_kinds}));
            return;
        }
    }
    ints.sort();
    ints.dedup();
    // queries
    for _ in 0..12 {
        let (pred, pkind) = gen_pred(rng, &ints, 1);
        let multi_order = rng.chance(1, 8);
        let order = match rng.below(6) {
            _ if multi_order => Some(("a, b", 1usize, false)),
            0 | 1 => None,
            2 => Some(("a", 1usize, false)),
            3 => Some(("a", 1, true)),
            4 => Some(("u", 4, rng.chance(1, 3))),
            _ => Some(("c", 3, rng.chance(1, 2))),
        };
        let use_where = rng.chance(5, 6);
        let mut sql = format!("SELECT id, a, b, c, u FROM t{}", if use_where { format!(" WHERE {}", pred) } else { String::new() });
        let mut keys: Vec<(usize, bool)> = Vec::new();
        let mut limited = false;
        if let Some((col, idx, desc)) = order {
            let total_order = rng.chance(1, 2);
            sql.push_str(&format!(" ORDER BY {}{}", col, if desc { " DESC" } else { "" }));
            keys.push((idx, desc));
            if multi_order {
                keys.push((2, false));
            }
            if total_order && !multi_order {
                sql.push_str(", id");
                keys.push((0, false));
                if rng.chance(1, 2) {
                    sql.push_str(&format!(" LIMIT {}", rng.below(5)));
                    limited = true;
                }
            }
        }
        ctx.eval();
        let (oa, ob) = (a.exec(&sql), b.exec(&sql));
        let used_index = a.hit("index_scan");
        let okind = match order { None => "noorder".to_string(), Some((c, _, d)) => format!("order:{}{}", c, if d { ":desc" } else { "" }) };
        let pclass = if !use_where { "nowhere".to_string() } else { pkind.split('[').next().unwrap_or("").trim_end_matches(|c: char| "<>=".contains(c)).to_string() };
        let has_nulls = rb.as_ref().map(|rows| rows.iter().any(|r| r[1..5].iter().any(|c| c.is_null()))).unwrap_or(false);
        let sig_tail = format!("idx={}|dml={}|nulls={}|pred={}|{}{}", idx_kinds.join("+"), dml_after as u8, has_nulls as u8, pclass, okind, if limited { "|limit" } else { "" });
        match (&oa, &ob) {
            (Outcome::Rows(x), Outcome::Rows(y)) => {
                let total = keys.len() == 2 && !multi_order;
                let same = if total { seq_eq(x, y, 0.0) } else { multiset_eq(x, y, 0.0) };
                if !same || (!keys.is_empty() && !sorted_by(x, &keys)) {
                    let sig = classify(x, y, same, &keys, &pred, use_where, &idx_kinds, &sig_tail);
                    ctx.violation(case, sig, json!({"sql": sql, "with_indexes": show_rows(x, 20), "without": show_rows(y, 20), "index_scan_used": used_index, "history": a.history_json()}));
                } else if used_index {
                    ctx.count_probes(&a.last_probes);
                    ctx.nontrivial(format!("{}|{}|rows{}", sig_tail, if y.is_empty() { "empty" } else { "nonempty" }, y.len().min(3)));
                } else {
                    ctx.count("queries_without_index_scan", 1);
                }
            }
            (Outcome::Panic(p), _) | (_, Outcome::Panic(p)) => {
                ctx.violation(case, format!("panic:select:{}", panic_class(p)), json!({"sql": sql, "history": a.history_json()}));
            }
            (Outcome::Err(e), Outcome::Rows(_)) => {
                ctx.violation(case, format!("error-only-with-indexes|{}", sig_tail), json!({"sql": sql, "error": e, "history": a.history_json()}));
            }
            (Outcome::Rows(_), Outcome::Err(e)) => {
                ctx.violation(case, format!("error-only-without-indexes|{}", sig_tail), json!({"sql": sql, "error": e, "history": a.history_json()}));
            }
            _ => ctx.count("query_error_both", 1),
        }
    }
    ctx.sample(|| json!({"indexes": indexes.iter().map(|i| i.sql.clone()).collect::<Vec<_>>(), "created_before_data": before_data, "history_len": a.history.len(), "last_sql": a.history.last().map(|e| e.sql.clone())}));
}
