//! C18 — native save/load (binary, compressed, JSON) round-trips the database;
//! C19 — SQL dump save/load round-trips table contents.

use serde_json::json;
use vibesql_storage::{Database, Row};
use vibesql_types::{Date, SqlValue, Time, Timestamp};

use crate::core::ctx::Ctx;
use crate::core::rng::Rng;
use crate::core::session::{guard, Session};
use crate::core::util::panic_class;

/// One "hard feature" per case keeps signatures attributable.
const FEATURES: [&str; 15] = [
    "plain", "negative-int", "extreme-int", "special-float", "negative-zero", "string-quote", "string-backslash", "string-semicolon", "string-newline", "string-dashdash-line", "unicode", "temporal", "boolean-null-mix", "empty-table", "large-repetitive-table",
];

fn bits(v: &SqlValue) -> String {
    match v {
        SqlValue::Double(f) | SqlValue::Numeric(f) => format!("{}:{:016x}", v.type_name(), if f.is_nan() { f64::NAN.to_bits() } else { f.to_bits() }),
        SqlValue::Float(f) | SqlValue::Real(f) => format!("{}:{:08x}", v.type_name(), if f.is_nan() { f32::NAN.to_bits() } else { f.to_bits() }),
        other => format!("{:?}", other),
    }
}

fn gen_row(rng: &mut Rng, id: i64, feature: &str) -> Vec<SqlValue> {
    use SqlValue::{Bigint, Boolean, Double, Integer, Null, Varchar};
    let mut i = Integer(rng.range(0, 50));
    let mut b = Bigint(rng.range(0, 1000));
    let mut d = Double((rng.range(0, 400) as f64) / 8.0);
    let mut s = Varchar(rng.pick(&["a", "bc", "hello world", ""]).to_string());
    let mut bo = Boolean(rng.chance(1, 2));
    let mut dt = SqlValue::Date(Date::new(2024, 2, 29).unwrap());
    let mut tm = SqlValue::Time(Time::new(12, 30, 0, 0).unwrap());
    let mut ts = SqlValue::Timestamp(Timestamp::new(Date::new(1999, 12, 31).unwrap(), Time::new(23, 59, 59, 0).unwrap()));
    match feature {
        "negative-int" => {
            i = Integer(-rng.range(1, 50));
            b = Bigint(-rng.range(1, 1_000_000));
        }
        "extreme-int" => {
            i = Integer(*rng.pick(&[i64::MAX, i64::MIN, i64::MAX - 1, 2147483648]));
            b = Bigint(*rng.pick(&[i64::MAX, i64::MIN + 1, 9007199254740993]));
        }
        "special-float" => d = Double(*rng.pick(&[f64::NAN, f64::INFINITY, f64::NEG_INFINITY, f64::MAX, f64::MIN_POSITIVE, 5e-324, 1e300, 0.1 + 0.2])),
        "negative-zero" => d = Double(*rng.pick(&[-0.0, -1.5, -1e-300])),
        "string-quote" => s = Varchar(rng.pick(&["it's", "''", "a'b'c", "\"dq\"", "'"]).to_string()),
        "string-backslash" => s = Varchar(rng.pick(&["a\\b", "trail\\", "\\\\", "\\'", "c:\\n"]).to_string()),
        "string-semicolon" => s = Varchar(rng.pick(&["a;b", ";", "x'; DROP TABLE t; --", "end;"]).to_string()),
        "string-newline" => s = Varchar(rng.pick(&["a\nb", "\n", "line1\n\nline3", "cr\r\nlf", "tab\t"]).to_string()),
        "string-dashdash-line" => s = Varchar(rng.pick(&["a\n-- not a comment\nb", "-- starts", "x -- y", "\n--"]).to_string()),
        "unicode" => s = Varchar(rng.pick(&["é", "日本語", "😀", "e\u{301}", "\u{feff}bom"]).to_string()),
        "temporal" => {
            dt = SqlValue::Date(Date::new(*rng.pick(&[1, 999, 2000, 9999]), rng.range(1, 12) as u8, rng.range(1, 28) as u8).unwrap());
            tm = SqlValue::Time(Time::new(rng.below(24) as u8, rng.below(60) as u8, rng.below(60) as u8, *rng.pick(&[0u32, 1, 500_000_000, 999_999_999, 123_456_000])).unwrap());
            ts = SqlValue::Timestamp(Timestamp::new(Date::new(2024, 1, 1).unwrap(), Time::new(0, 0, 0, *rng.pick(&[0u32, 1, 999_999_999])).unwrap()));
        }
        "boolean-null-mix" => {
            if rng.chance(1, 2) {
                bo = Null;
            }
            if rng.chance(1, 2) {
                s = Null;
            }
            if rng.chance(1, 3) {
                d = Null;
            }
            if rng.chance(1, 3) {
                dt = Null;
            }
        }
        _ => {}
    }
    vec![Integer(id), i, b, d, s, bo, dt, tm, ts]
}

const CREATE: &str = "CREATE TABLE t (id INTEGER PRIMARY KEY, i INTEGER, b BIGINT, d DOUBLE PRECISION, s VARCHAR(60), bo BOOLEAN, dt DATE, tm TIME, ts TIMESTAMP)";

fn build(rng: &mut Rng, feature: &str) -> (Session, Vec<String>) {
    let mut s = Session::new();
    s.must(CREATE);
    s.must("CREATE TABLE other (k INTEGER NOT NULL, note VARCHAR(10))");
    s.must("INSERT INTO other VALUES (1, 'n')");
    let n = if feature == "empty-table" { 0 } else { rng.range(1, 6) };
    for id in 1..=n {
        let row = gen_row(rng, id, feature);
        s.db.insert_row("T", Row::new(row)).expect("direct insert");
    }
    if feature == "large-repetitive-table" {
        // thousands of rows over a handful of distinct values: compresses several hundred times
        let m = rng.range(8000, 20000);
        for k in 0..m {
            s.db.insert_row("OTHER", Row::new(vec![SqlValue::Integer(k % 3), SqlValue::Varchar(["nnnnnnnnnn", "mmmmmmmmmm"][(k % 2) as usize].to_string())])).expect("direct insert");
        }
    }
    let mut ddl = Vec::new();
    for ix in ["CREATE INDEX ix_i ON t (i)", "CREATE UNIQUE INDEX ux_b ON t (b)", "CREATE INDEX ix_s ON t (s(3))", "CREATE INDEX ix_id ON t (i DESC, d)"] {
        if rng.chance(1, 3) && !s.exec(ix).is_err() {
            ddl.push(ix.to_string());
        }
    }
    // some DML so the saved state is not just appended rows
    if n > 2 && rng.chance(1, 2) {
        let _ = s.exec("DELETE FROM t WHERE id = 2");
        let _ = s.exec("UPDATE t SET i = i + 1 WHERE id = 1");
        ddl.push("DELETE id=2; UPDATE id=1".into());
    }
    (s, ddl)
}

fn table_dump(db: &Database, name: &str) -> Option<(Vec<String>, Vec<String>)> {
    let t = db.get_table(name)?;
    let cols = t.schema.columns.iter().map(|c| format!("{}:{:?}:{}", c.name, c.data_type, c.nullable)).collect();
    let mut rows: Vec<String> = t.scan().iter().map(|r| r.values.iter().map(bits).collect::<Vec<_>>().join(" | ")).collect();
    rows.sort();
    Some((cols, rows))
}

fn index_defs(db: &Database, with_prefix: bool) -> Vec<String> {
    let mut v: Vec<String> = db
        .list_indexes()
        .into_iter()
        .map(|n| {
            let m = db.get_index(&n);
            format!("{}:{:?}", n, m.map(|m| (m.table_name.clone(), m.unique, m.columns.iter().map(|c| if with_prefix { format!("{}:{:?}:{:?}", c.column_name, c.direction, c.prefix_length) } else { format!("{}:{:?}", c.column_name, c.direction) }).collect::<Vec<_>>())))
        })
        .collect();
    v.sort();
    v
}

fn tmp(case: u64, ext: &str) -> std::path::PathBuf {
    std::env::temp_dir().join(format!("vverif_persist_{}_{}.{}", std::process::id(), case, ext))
}

pub fn run_c18(ctx: &mut Ctx) {
    let total = ctx.n(900, 40_000);
    for case in ctx.my_cases(total) {
        ctx.begin_case(case);
        let mut rng = ctx.rng(case);
        let feature = FEATURES[(case as usize) % FEATURES.len()];
        let (mut s, ddl) = build(&mut rng, feature);
        for fmt in ["binary", "compressed", "json"] {
            ctx.eval();
            let path = tmp(case, match fmt { "binary" => "vbsql", "compressed" => "vbsqlz", _ => "json" });
            let saved = guard(|| match fmt {
                "binary" => s.db.save_binary(&path).map_err(|e| e.to_string()),
                "compressed" => s.db.save_compressed(&path).map_err(|e| e.to_string()),
                _ => s.db.save_json(&path).map_err(|e| e.to_string()),
            });
            let rows_dump = table_dump(&s.db, "T").map(|x| x.1);
            let detail = |extra: serde_json::Value| json!({"format": fmt, "feature": feature, "setup": ddl, "rows": rows_dump, "more": extra});
            match saved {
                Err(p) => {
                    ctx.violation(case, format!("panic:save:{}:{}", fmt, panic_class(&p)), detail(json!({"panic": p})));
                    continue;
                }
                Ok(Err(e)) => {
                    ctx.violation(case, format!("save-error:{}|{}", fmt, feature), detail(json!({"error": e})));
                    continue;
                }
                Ok(Ok(())) => {}
            }
            let loaded = guard(|| match fmt {
                "binary" => Database::load_binary(&path).map_err(|e| e.to_string()),
                "compressed" => Database::load_compressed(&path).map_err(|e| e.to_string()),
                _ => Database::load_json(&path).map_err(|e| e.to_string()),
            });
            let _ = std::fs::remove_file(&path);
            let db2 = match loaded {
                Err(p) => {
                    ctx.violation(case, format!("panic:load:{}:{}", fmt, panic_class(&p)), detail(json!({"panic": p})));
                    continue;
                }
                Ok(Err(e)) => {
                    ctx.violation(case, format!("load-error:{}|{}", fmt, feature), detail(json!({"error": e})));
                    continue;
                }
                Ok(Ok(d)) => d,
            };
            let mut bad = None;
            for t in ["T", "OTHER"] {
                let (a, b) = (table_dump(&s.db, t), table_dump(&db2, t));
                match (a, b) {
                    (Some(a), Some(b)) => {
                        if a.0 != b.0 {
                            bad = Some(("column-metadata-differs", json!({"table": t, "saved": a.0, "loaded": b.0})));
                        } else if a.1 != b.1 {
                            let cap = |v: &Vec<String>| v.iter().take(30).cloned().collect::<Vec<_>>();
                            bad = Some(("rows-differ", json!({"table": t, "saved_rows": a.1.len(), "loaded_rows": b.1.len(), "saved": cap(&a.1), "loaded": cap(&b.1)})));
                        }
                    }
                    (Some(_), None) => bad = Some(("table-missing-after-load", json!({"table": t}))),
                    _ => {}
                }
                if bad.is_some() {
                    break;
                }
            }
            if bad.is_none() {
                let (x, y) = (index_defs(&s.db, true), index_defs(&db2, true));
                if x != y {
                    // is the prefix length the only thing that got lost?
                    let what = if index_defs(&s.db, false) == index_defs(&db2, false) { "index-prefix-length-lost" } else { "index-definitions-differ" };
                    bad = Some((what, json!({"saved": x, "loaded": y})));
                }
            }
            if bad.is_none() {
                // queries, including index-driven ones, must answer the same
                let mut s2 = Session::with_db(db2);
                s2.record = false;
                let mut s = Session::with_db(s.db.clone());
                s.record = false;
                for qsql in ["SELECT id FROM t WHERE i >= 0 ORDER BY id", "SELECT id FROM t WHERE i = 1 ORDER BY id", "SELECT id FROM t WHERE b > 5 ORDER BY id", "SELECT id FROM t WHERE s >= 'a' ORDER BY id", "SELECT COUNT(*), MAX(id) FROM t", "SELECT id, i FROM t ORDER BY i DESC, id", "SELECT k FROM other"] {
                    let (r1, r2) = (s.query(qsql), s2.query(qsql));
                    let same = match (&r1, &r2) {
                        (Ok(a), Ok(b)) => crate::core::canon::seq_eq(a, b, 0.0),
                        (Err(_), Err(_)) => true,
                        _ => false,
                    };
                    if !same {
                        bad = Some(("query-answers-differ", json!({"query": qsql, "original": format!("{:?}", r1.map(|r| crate::core::canon::show_rows(&r, 12))), "loaded": format!("{:?}", r2.map(|r| crate::core::canon::show_rows(&r, 12))), "index_scan_on_loaded": s2.hit("index_scan")})));
                        break;
                    }
                }
            }
            match bad {
                Some((what, extra)) => {
                    // value class only matters for value-level differences
                    let sig = if what == "rows-differ" { format!("{}:{}|{}", what, fmt, feature) } else { format!("{}:{}", what, fmt) };
                    ctx.violation(case, sig, detail(extra));
                }
                None => {
                    ctx.nontrivial(format!("{}|{}|indexes={}|rows={}", fmt, feature, ddl.iter().filter(|d| d.starts_with("CREATE")).count(), table_dump(&s.db, "T").map(|x| x.1.len().min(3)).unwrap_or(0)));
                    ctx.sample(|| json!({"format": fmt, "feature": feature, "setup": ddl}));
                }
            }
        }
    }
}

pub fn run_c19(ctx: &mut Ctx) {
    let total = ctx.n(900, 40_000);
    for case in ctx.my_cases(total) {
        ctx.begin_case(case);
        let mut rng = ctx.rng(case);
        let feature = FEATURES[(case as usize) % FEATURES.len()];
        let (s, ddl) = build(&mut rng, feature);
        ctx.eval();
        let path = tmp(case, "sql");
        let detail = |extra: serde_json::Value, dump: Option<String>| json!({"feature": feature, "setup": ddl, "rows": table_dump(&s.db, "T").map(|x| x.1), "dump_excerpt": dump.map(|d| d.lines().filter(|l| l.starts_with("INSERT") || l.starts_with("CREATE TABLE")).take(8).map(|l| crate::core::util::trunc(l, 200)).collect::<Vec<_>>()), "more": extra});
        match guard(|| s.db.save_sql_dump(&path).map_err(|e| e.to_string())) {
            Err(p) => {
                ctx.violation(case, format!("panic:save_sql_dump:{}", panic_class(&p)), detail(json!({"panic": p}), None));
                continue;
            }
            Ok(Err(e)) => {
                ctx.violation(case, format!("save-error|{}", feature), detail(json!({"error": e}), None));
                continue;
            }
            Ok(Ok(())) => {}
        }
        let dump = std::fs::read_to_string(&path).ok();
        let loaded = guard(|| vibesql_executor::load_sql_dump(&path).map_err(|e| e.to_string()));
        let _ = std::fs::remove_file(&path);
        let db2 = match loaded {
            Err(p) => {
                ctx.violation(case, format!("panic:load_sql_dump:{}", panic_class(&p)), detail(json!({"panic": p}), dump));
                continue;
            }
            Ok(Err(e)) => {
                ctx.violation(case, format!("load-error|{}", feature), detail(json!({"error": e}), dump));
                continue;
            }
            Ok(Ok(d)) => d,
        };
        let mut bad = None;
        for t in ["T", "OTHER"] {
            match (table_dump(&s.db, t), table_dump(&db2, t)) {
                (Some(a), Some(b)) => {
                    let names = |v: &Vec<String>| v.iter().map(|c| c.split(':').next().unwrap_or("").to_string()).collect::<Vec<_>>();
                    if names(&a.0) != names(&b.0) {
                        bad = Some(("columns-differ", json!({"table": t, "saved": a.0, "loaded": b.0})));
                    } else if a.1 != b.1 {
                        bad = Some(("rows-differ", json!({"table": t, "saved": a.1, "loaded": b.1})));
                    }
                }
                (Some(_), None) => bad = Some(("table-missing-after-load", json!({"table": t}))),
                _ => {}
            }
            if bad.is_some() {
                break;
            }
        }
        match bad {
            Some((what, extra)) => ctx.violation(case, format!("{}|{}", what, feature), detail(extra, dump)),
            None => {
                ctx.nontrivial(format!("{}|rows={}", feature, table_dump(&s.db, "T").map(|x| x.1.len().min(3)).unwrap_or(0)));
                ctx.sample(|| json!({"feature": feature, "setup": ddl}));
            }
        }
    }
}
