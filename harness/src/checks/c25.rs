//! C25 — the query result cache never serves a stale or foreign result.
//! Protocol of the sqllogictest adapter: key = QuerySignature::from_sql(text), dependencies =
//! extract_tables_from_select, invalidate_table(name) on INSERT/UPDATE/DELETE/DROP.

use serde_json::json;
use vibesql_ast::Statement;
use vibesql_catalog::{ColumnSchema, TableSchema};
use vibesql_executor::cache::{extract_tables_from_select, QueryResultCache, QuerySignature};
use vibesql_executor::schema::CombinedSchema;
use vibesql_parser::Parser;

use crate::core::canon::{from_sql_rows, multiset_eq, show_rows};
use crate::core::ctx::Ctx;
use crate::core::rng::Rng;
use crate::core::session::{guard, Outcome, Session};

fn queries(rng: &mut Rng, hostile: &str) -> (String, &'static str) {
    let lit = *rng.pick(&["a", "A", "ab", "Ab", "a ", "a  b", "a b"]);
    let n = rng.range(0, 3);
    match rng.below(21) {
        // two literals: the first one (fixed per case) is hostile to any quote scanner (ends in a
        // backslash, holds a doubled quote, comment openers, a double quote), the second varies in
        // case / spacing
        17..=20 => (format!("SELECT id FROM t1 WHERE c <> '{}' AND c = '{}'", hostile, lit), "two-literals-first-hostile"),
        0 => (format!("SELECT id FROM t1 WHERE c = '{}'", lit), "string-literal-case-space"),
        1 => (format!("SELECT id FROM t1 WHERE c = '{}' ", lit), "trailing-space"),
        2 => (format!("SELECT id  FROM  t1 WHERE c = '{}'", lit), "inner-whitespace"),
        3 => (format!("select id from t1 where c = '{}'", lit), "keyword-case"),
        4 => (format!("SELECT id FROM t1 WHERE a = {}", n), "int-literal"),
        5 => (format!("SELECT t1.id FROM t1 WHERE t1.id IN (SELECT t2.id FROM t2 WHERE t2.a = {})", n), "table-in-subquery"),
        6 => (format!("SELECT x.id, y.id FROM t1 AS x INNER JOIN t2 AS y ON x.a = y.a WHERE y.a >= {}", n), "join"),
        7 => ("WITH w AS (SELECT id, a FROM t2) SELECT id FROM w WHERE a > 0".to_string(), "cte"),
        8 => ("SELECT id FROM t1 UNION SELECT id FROM t2".to_string(), "set-operation"),
        9 => ("SELECT id FROM v1".to_string(), "through-view"),
        10 => ("SELECT id FROM public.t1 WHERE a >= 0".to_string(), "schema-qualified"),
        11 => ("SELECT id FROM T1 WHERE a >= 0".to_string(), "table-name-case"),
        12 => (format!("SELECT (SELECT COUNT(*) FROM t2 WHERE a = {}) FROM t1", n), "scalar-subquery-in-select-list"),
        // a CTE that reuses the name of the base table its own body reads (WITH is not recursive)
        14 => (format!("WITH t2 AS (SELECT id, a FROM t2 WHERE a >= {}) SELECT id FROM t2", n), "cte-named-like-its-base-table"),
        15 => ("WITH t1 AS (SELECT id FROM t2), t2 AS (SELECT id FROM t1) SELECT id FROM t2".to_string(), "ctes-swapping-table-names"),
        16 => (format!("WITH w AS (SELECT id FROM t1 WHERE a = {}), t1 AS (SELECT id FROM w) SELECT id FROM t1", n), "later-cte-named-like-earlier-base-table"),
        _ => (format!("SELECT id FROM t1 WHERE EXISTS (SELECT 1 FROM t2 WHERE t2.a = t1.a AND t2.a >= {})", n), "exists-subquery"),
    }
}

fn writes(rng: &mut Rng, next_id: &mut i64) -> (String, String) {
    let t = *rng.pick(&["t1", "t2", "T1", "public.t2"]);
    match rng.below(4) {
        0 | 1 => {
            *next_id += 1;
            (format!("INSERT INTO {} VALUES ({}, {}, '{}')", t, next_id, rng.range(0, 3), rng.pick(&["a", "A", "ab", "a b"])), t.to_string())
        }
        2 => (format!("UPDATE {} SET a = {} WHERE id = {}", t, rng.range(0, 3), rng.range(1, (*next_id).max(1))), t.to_string()),
        _ => (format!("DELETE FROM {} WHERE id = {}", t, rng.range(1, (*next_id).max(1))), t.to_string()),
    }
}

pub fn run(ctx: &mut Ctx) {
    let total = ctx.n(1500, 100_000);
    for case in ctx.my_cases(total) {
        ctx.begin_case(case);
        let mut rng = ctx.rng(case);
        let mut s = Session::new();
        s.must("CREATE TABLE t1 (id INTEGER, a INTEGER, c VARCHAR(10))");
        s.must("CREATE TABLE t2 (id INTEGER, a INTEGER, c VARCHAR(10))");
        s.must("CREATE VIEW v1 AS SELECT id, a FROM t2 WHERE a >= 0");
        let mut next_id = 0i64;
        for t in ["t1", "t2"] {
            for _ in 0..rng.range(1, 4) {
                next_id += 1;
                s.must(&format!("INSERT INTO {} VALUES ({}, {}, '{}')", t, next_id, rng.range(0, 3), rng.pick(&["a", "A", "ab", "a b"])));
            }
        }
        let hostile = *rng.pick(&["C:\\", "it''s", "\"q\"", "--x", "/* y", "a\\b", "", "x\\"]);
        let cache = QueryResultCache::new(*rng.pick(&[2usize, 3, 1000]));
        let mut log: Vec<String> = Vec::new();
        for _ in 0..rng.range(6, 24) {
            if rng.chance(2, 5) {
                // write, with the adapter's invalidation protocol
                let (sql, _t) = writes(&mut rng, &mut next_id);
                let stmt = match Parser::parse_sql(&sql) {
                    Ok(st) => st,
                    Err(_) => continue,
                };
                let table = match &stmt {
                    Statement::Insert(i) => i.table_name.clone(),
                    Statement::Update(u) => u.table_name.clone(),
                    Statement::Delete(d) => d.table_name.clone(),
                    _ => continue,
                };
                cache.invalidate_table(&table);
                let o = s.exec(&sql);
                log.push(format!("{}  -- {} (invalidate_table({:?}))", sql, crate::core::util::trunc(&o.brief(), 30), table));
            } else {
                let (sql, kind) = queries(&mut rng, hostile);
                ctx.eval();
                let sig = QuerySignature::from_sql(&sql);
                let hit = match guard(|| cache.get(&sig)) {
                    Ok(h) => h,
                    Err(p) => {
                        ctx.violation(case, format!("panic:cache-get:{}", crate::core::util::panic_class(&p)), json!({"sql": sql, "log": log}));
                        break;
                    }
                };
                // uncached execution on the current database = the truth at this moment
                let fresh = s.exec(&sql);
                let Outcome::Rows(fresh_rows) = fresh else { continue };
                match hit {
                    Some((rows, _schema)) => {
                        let cached = from_sql_rows(&rows);
                        if !multiset_eq(&cached, &fresh_rows, 0.0) {
                            ctx.violation(case, format!("stale-or-foreign-hit|{}", kind), json!({"sql": sql, "served_from_cache": show_rows(&cached, 12), "current_answer": show_rows(&fresh_rows, 12), "log": log}));
                            break;
                        }
                        ctx.nontrivial(format!("hit|{}|rows{}", kind, fresh_rows.len().min(2)));
                        ctx.count("cache_hits_checked", 1);
                        log.push(format!("{}  -- cache HIT (checked)", sql));
                    }
                    None => {
                        // miss: execute and insert as the adapter does
                        let Ok(Statement::Select(sel)) = Parser::parse_sql(&sql) else { continue };
                        let raw = match vibesql_executor::SelectExecutor::new(&s.db).execute(&sel) {
                            Ok(r) => r,
                            Err(_) => continue,
                        };
                        let schema = if let Some(first) = raw.first() {
                            let cols: Vec<ColumnSchema> = first.values.iter().enumerate().map(|(i, v)| ColumnSchema { name: format!("col{}", i), data_type: v.get_type(), nullable: v.is_null(), default_value: None }).collect();
                            CombinedSchema::from_table("result".to_string(), TableSchema::new("result".to_string(), cols))
                        } else {
                            CombinedSchema::from_table("result".to_string(), TableSchema::new("result".to_string(), vec![]))
                        };
                        let tables = extract_tables_from_select(&sel);
                        log.push(format!("{}  -- cache MISS, inserted with tables {:?}", sql, { let mut t: Vec<&String> = tables.iter().collect(); t.sort(); t }));
                        cache.insert(sig, raw, schema, tables);
                        ctx.count("cache_misses", 1);
                    }
                }
            }
        }
        let n = log.len();
        ctx.sample(|| json!({"steps": n, "tail": log.iter().rev().take(5).collect::<Vec<_>>() }));
    }
}
