//! C34 — row triggers fire once per affected row with the right row images.
//! Trigger bodies write (trigger tag, OLD image, NEW image) into an audit table; a model of the
//! expected firings is compared with the audit rows after every statement.

use serde_json::json;

use crate::core::canon::{show_rows, sort_rows, CRow, Canon};
use crate::core::ctx::Ctx;
use crate::core::rng::Rng;
use crate::core::session::{Outcome, Session};
use crate::core::util::panic_class;

type V = Option<i64>;
type Row = [V; 3]; // id, a, b

#[derive(Clone, Copy, PartialEq, Eq, Debug)]
enum Ev {
    Insert,
    Update,
    UpdateOfA,
    Delete,
}
#[derive(Clone, Copy, PartialEq, Eq, Debug)]
enum When {
    None,
    NewAGt(i64),
    OldALe(i64),
}
#[derive(Clone, Debug)]
struct Trig {
    tag: String,
    before: bool,
    ev: Ev,
    row_level: bool,
    when: When,
    /// body fails (inserts into a table that does not exist)
    failing: bool,
}

impl Trig {
    fn header(&self) -> String {
        let ev = match self.ev {
            Ev::Insert => "INSERT",
            Ev::Update => "UPDATE",
            Ev::UpdateOfA => "UPDATE OF (a)",
            Ev::Delete => "DELETE",
        };
        let when = match self.when {
            When::None => String::new(),
            When::NewAGt(k) => format!(" WHEN (NEW.a > {})", k),
            When::OldALe(k) => format!(" WHEN (OLD.a <= {})", k),
        };
        format!("CREATE TRIGGER {} {} {} ON t FOR EACH {}{}", self.tag, if self.before { "BEFORE" } else { "AFTER" }, ev, if self.row_level { "ROW" } else { "STATEMENT" }, when)
    }
    fn body(&self) -> String {
        if self.failing {
            return "INSERT INTO no_such_table VALUES (1)".to_string();
        }
        let (old, new) = if !self.row_level {
            ("NULL, NULL, NULL", "NULL, NULL, NULL")
        } else {
            match self.ev {
                Ev::Insert => ("NULL, NULL, NULL", "NEW.id, NEW.a, NEW.b"),
                Ev::Delete => ("OLD.id, OLD.a, OLD.b", "NULL, NULL, NULL"),
                _ => ("OLD.id, OLD.a, OLD.b", "NEW.id, NEW.a, NEW.b"),
            }
        };
        format!("INSERT INTO audit VALUES ('{}', {}, {})", self.tag, old, new)
    }
    fn shape(&self) -> String {
        format!(
            "{}-{}-{}{}{}",
            if self.before { "before" } else { "after" },
            match self.ev {
                Ev::Insert => "insert",
                Ev::Update => "update",
                Ev::UpdateOfA => "update-of",
                Ev::Delete => "delete",
            },
            if self.row_level { "row" } else { "statement" },
            if self.when != When::None { "-when" } else { "" },
            if self.failing { "-failing" } else { "" }
        )
    }
    fn when_holds(&self, old: Option<&Row>, new: Option<&Row>) -> bool {
        match self.when {
            When::None => true,
            When::NewAGt(k) => new.and_then(|r| r[1]).map_or(false, |a| a > k),
            When::OldALe(k) => old.and_then(|r| r[1]).map_or(false, |a| a <= k),
        }
    }
}

fn gen_trigger(rng: &mut Rng, i: usize) -> Trig {
    let ev = *rng.pick(&[Ev::Insert, Ev::Update, Ev::Update, Ev::UpdateOfA, Ev::Delete]);
    let row_level = rng.chance(3, 4);
    let when = if row_level && rng.chance(1, 3) {
        match ev {
            Ev::Insert => When::NewAGt(rng.range(0, 4)),
            Ev::Delete => When::OldALe(rng.range(0, 4)),
            _ => {
                if rng.chance(1, 2) {
                    When::NewAGt(rng.range(0, 4))
                } else {
                    When::OldALe(rng.range(0, 4))
                }
            }
        }
    } else {
        When::None
    };
    Trig { tag: format!("TR{}", i), before: rng.chance(1, 2), ev, row_level, when, failing: rng.chance(1, 10) }
}

#[derive(Clone, Debug)]
enum Pred {
    All,
    IdEq(i64),
    ALe(i64),
    Never,
}
impl Pred {
    fn sql(&self) -> String {
        match self {
            Pred::All => String::new(),
            Pred::IdEq(k) => format!(" WHERE id = {}", k),
            Pred::ALe(k) => format!(" WHERE a <= {}", k),
            Pred::Never => " WHERE a > 1000".to_string(),
        }
    }
    fn holds(&self, r: &Row) -> bool {
        match self {
            Pred::All => true,
            Pred::IdEq(k) => r[0] == Some(*k),
            Pred::ALe(k) => r[1].map_or(false, |a| a <= *k),
            Pred::Never => false,
        }
    }
    fn tag(&self) -> &'static str {
        match self {
            Pred::All => "all",
            Pred::IdEq(k) if *k >= 1000 => "by-key-miss",
            Pred::IdEq(_) => "by-key",
            Pred::ALe(_) => "range",
            Pred::Never => "no-match",
        }
    }
}

enum Dml {
    Insert(Vec<Row>),
    /// SET a = k | a = a + k | b = k
    Update { col: usize, add: bool, k: i64, p: Pred },
    Delete(Pred),
}

fn lit(v: V) -> String {
    v.map_or("NULL".to_string(), |i| i.to_string())
}

fn gen_pred(rng: &mut Rng, t: &[Row]) -> Pred {
    if rng.chance(1, 8) {
        // a key that matches no row (the primary-key fast path with a miss)
        return Pred::IdEq(1000 + rng.range(0, 50));
    }
    match rng.below(8) {
        0 | 1 => Pred::All,
        2..=4 if !t.is_empty() => Pred::IdEq(rng.pick(t)[0].unwrap()),
        5 | 6 => Pred::ALe(rng.range(0, 5)),
        _ => Pred::Never,
    }
}

/// expected audit rows: (tag, old image, new image)
type Audit = (String, [V; 3], [V; 3]);

struct Expected {
    /// firings that must be there
    must: Vec<Audit>,
    /// firings that may be there (UPDATE OF when the column is assigned but keeps its value)
    may: Vec<Audit>,
    /// a failing trigger fires: the statement must fail and leave t unchanged
    fails: bool,
    after: Vec<Row>,
    affected: usize,
}

fn expect(trigs: &[Trig], t: &[Row], d: &Dml) -> Expected {
    const NONE: [V; 3] = [None, None, None];
    let mut e = Expected { must: vec![], may: vec![], fails: false, after: t.to_vec(), affected: 0 };
    let (ev_matches, pairs): (Box<dyn Fn(&Trig) -> bool>, Vec<(Option<Row>, Option<Row>)>) = match d {
        Dml::Insert(rows) => {
            e.after.extend(rows.iter().cloned());
            (Box::new(|tr: &Trig| tr.ev == Ev::Insert), rows.iter().map(|r| (None, Some(*r))).collect())
        }
        Dml::Delete(p) => {
            e.after.retain(|r| !p.holds(r));
            (Box::new(|tr: &Trig| tr.ev == Ev::Delete), t.iter().filter(|r| p.holds(r)).map(|r| (Some(*r), None)).collect())
        }
        Dml::Update { col, add, k, p } => {
            let mut pairs = vec![];
            for r in e.after.iter_mut() {
                if p.holds(r) {
                    let old = *r;
                    r[*col] = if *add { r[*col].map(|v| v + k) } else { Some(*k) };
                    pairs.push((Some(old), Some(*r)));
                }
            }
            let assigns_a = *col == 1;
            (Box::new(move |tr: &Trig| tr.ev == Ev::Update || (tr.ev == Ev::UpdateOfA && assigns_a)), pairs)
        }
    };
    e.affected = pairs.len();
    for tr in trigs.iter().filter(|tr| ev_matches(tr)) {
        if !tr.row_level {
            if tr.failing {
                e.fails = true;
            } else {
                e.must.push((tr.tag.clone(), NONE, NONE));
            }
            continue;
        }
        for (old, new) in &pairs {
            if !tr.when_holds(old.as_ref(), new.as_ref()) {
                continue;
            }
            let unchanged_a = tr.ev == Ev::UpdateOfA && old.map(|r| r[1]) == new.map(|r| r[1]);
            if tr.failing {
                if !unchanged_a {
                    e.fails = true;
                } else {
                    // may or may not fire: nothing can be said about the outcome
                    e.may.push(("<failing>".to_string(), NONE, NONE));
                }
                continue;
            }
            let a: Audit = (tr.tag.clone(), old.unwrap_or(NONE), new.unwrap_or(NONE));
            if unchanged_a {
                e.may.push(a);
            } else {
                e.must.push(a);
            }
        }
    }
    e
}

fn table_rows(s: &mut Session, sql: &str) -> Result<Vec<CRow>, String> {
    let rec = s.record;
    s.record = false;
    let r = s.query(sql);
    s.record = rec;
    r
}

fn to_v(c: &Canon) -> V {
    if let Canon::Int(i) = c {
        Some(*i as i64)
    } else {
        None
    }
}

pub fn run(ctx: &mut Ctx) {
    let total = ctx.n(1500, 50_000);
    for case in ctx.my_cases(total) {
        ctx.begin_case(case);
        let mut rng = ctx.rng(case);
        let mut s = Session::new();
        // one case in three carries a bounded text column outside the model; the values written
        // to it are sometimes longer than it can hold
        let text_col = rng.chance(1, 3);
        s.must(if text_col { "CREATE TABLE t (id INTEGER PRIMARY KEY, a INTEGER, b INTEGER, s VARCHAR(4))" } else { "CREATE TABLE t (id INTEGER PRIMARY KEY, a INTEGER, b INTEGER)" });
        let text_val = |rng: &mut Rng| -> String {
            if !text_col {
                String::new()
            } else {
                format!(", '{}'", rng.pick(&["", "ab", "abcd", "abcde", "abcdefghij"]))
            }
        };
        s.must("CREATE TABLE audit (tag VARCHAR(20), oid INTEGER, oa INTEGER, ob INTEGER, nid INTEGER, na INTEGER, nb INTEGER)");
        let mut t: Vec<Row> = vec![];
        let mut next_id = 0i64;
        for _ in 0..rng.range(0, 6) {
            next_id += 1;
            let r: Row = [Some(next_id), if rng.chance(1, 8) { None } else { Some(rng.range(0, 5)) }, Some(rng.range(0, 5))];
            let tv = text_val(&mut rng);
            s.must(&format!("INSERT INTO t SELECT {}, {}, {}{}", lit(r[0]), lit(r[1]), lit(r[2]), tv));
            t.push(r);
        }
        let ntr = rng.range(1, 4) as usize;
        let mut trigs: Vec<Trig> = (0..ntr).map(|i| gen_trigger(&mut rng, i)).collect();
        // at most one failing trigger, so a failure is attributable
        let mut seen_fail = false;
        for tr in trigs.iter_mut() {
            if tr.failing && seen_fail {
                tr.failing = false;
            }
            seen_fail |= tr.failing;
        }
        let mut ok = true;
        for tr in &trigs {
            let o = s.create_trigger(&tr.header(), &tr.body());
            if o.is_err() {
                ctx.count("trigger-ddl-rejected", 1);
                if ctx.notes.len() < 3 {
                    ctx.notes.push(format!("trigger rejected: {} -> {}", tr.header(), o.brief()));
                }
                ok = false;
                break;
            }
        }
        if !ok {
            continue;
        }
        for _ in 0..rng.range(3, 10) {
            let d = match rng.below(10) {
                0..=2 => {
                    let n = if rng.chance(1, 2) { 1 } else { rng.range(2, 4) };
                    Dml::Insert(
                        (0..n)
                            .map(|_| {
                                next_id += 1;
                                [Some(next_id), if rng.chance(1, 8) { None } else { Some(rng.range(0, 5)) }, Some(rng.range(0, 5))]
                            })
                            .collect(),
                    )
                }
                3..=6 => {
                    let col = if rng.chance(2, 3) { 1 } else { 2 };
                    let add = rng.chance(1, 3);
                    Dml::Update { col, add, k: if add { rng.range(0, 2) } else { rng.range(0, 5) }, p: gen_pred(&mut rng, &t) }
                }
                _ => Dml::Delete(gen_pred(&mut rng, &t)),
            };
            let (sql, shape) = match &d {
                Dml::Insert(rows) => (
                    format!("INSERT INTO t VALUES {}", rows.iter().map(|r| format!("({}, {}, {}{})", lit(r[0]), lit(r[1]), lit(r[2]), text_val(&mut rng))).collect::<Vec<_>>().join(", ")),
                    if rows.len() > 1 { "insert-multi".to_string() } else { "insert".to_string() },
                ),
                Dml::Update { col, add, k, p } => {
                    let c = ["id", "a", "b"][*col];
                    (format!("UPDATE t SET {} = {}{}", c, if *add { format!("{} + {}", c, k) } else { k.to_string() }, p.sql()), format!("update-{}-{}", c, p.tag()))
                }
                Dml::Delete(p) => (format!("DELETE FROM t{}", p.sql()), format!("delete-{}", p.tag())),
            };
            let e = expect(&trigs, &t, &d);
            let rec = s.record;
            s.record = false;
            s.must("DELETE FROM audit");
            s.record = rec;
            let out = s.exec(&sql);
            ctx.eval();
            let involved: Vec<String> = {
                let mut v: Vec<String> = trigs
                    .iter()
                    .filter(|tr| match (&d, tr.ev) {
                        (Dml::Insert(_), Ev::Insert) | (Dml::Delete(_), Ev::Delete) | (Dml::Update { .. }, Ev::Update) | (Dml::Update { .. }, Ev::UpdateOfA) => true,
                        _ => false,
                    })
                    .map(|tr| tr.shape())
                    .collect();
                v.sort();
                v.dedup();
                v
            };
            let fail = |ctx: &mut Ctx, s: &Session, sig: String, extra: serde_json::Value| {
                ctx.violation(case, sig, json!({"triggers": trigs.iter().map(|t| format!("{} BEGIN {} END", t.header(), t.body())).collect::<Vec<_>>(), "statement": sql, "detail": extra, "history": s.history_json()}));
            };
            if let Outcome::Panic(p) = &out {
                fail(ctx, &s, format!("panic:{}|{}", shape, panic_class(p)), json!(p));
                break;
            }
            let now: Vec<Row> = match table_rows(&mut s, "SELECT id, a, b FROM t") {
                Ok(r) => {
                    let mut v: Vec<Row> = r.iter().map(|x| [to_v(&x[0]), to_v(&x[1]), to_v(&x[2])]).collect();
                    v.sort();
                    v
                }
                Err(x) => {
                    fail(ctx, &s, "table-unreadable".into(), json!(x));
                    break;
                }
            };
            let mut before_sorted = t.clone();
            before_sorted.sort();
            let uncertain = e.may.iter().any(|a| a.0 == "<failing>");
            if e.fails && !uncertain {
                // a failing trigger fires: statement fails, table unchanged
                let which = trigs.iter().find(|tr| tr.failing).map(|tr| tr.shape()).unwrap_or_default();
                if !out.is_err() {
                    fail(ctx, &s, format!("failing-trigger-ignored:{}", which), json!({"outcome": out.brief()}));
                    break;
                }
                if now != before_sorted {
                    // (a one-row statement has no earlier rows to be left behind: what stays after
                    // a failing row trigger is the very row whose trigger failed)
                    let row_level = trigs.iter().find(|tr| tr.failing).map_or(false, |tr| tr.row_level);
                    let single = if shape == "insert" && row_level { "-single-row" } else { "" };
                    fail(ctx, &s, format!("failing-trigger-left-changes:{}-{}{}", which.split('-').next().unwrap(), shape.split('-').next().unwrap(), single), json!({"before": format!("{:?}", before_sorted), "after": format!("{:?}", now)}));
                    break;
                }
                ctx.nontrivial(format!("failing|{}|{}", which, shape));
                continue;
            }
            if uncertain {
                // follow the engine
                ctx.count("uncertain-failing-update-of", 1);
                t = now;
                continue;
            }
            if out.is_err() {
                fail(ctx, &s, format!("statement-rejected:{}|{}", shape, involved.join("+")), json!(out.brief()));
                break;
            }
            let mut exp_after = e.after.clone();
            exp_after.sort();
            if now != exp_after {
                fail(ctx, &s, format!("table-contents:{}|{}", shape, involved.join("+")), json!({"engine": format!("{:?}", now), "model": format!("{:?}", exp_after)}));
                break;
            }
            // audit rows vs expected firings
            let audit = match table_rows(&mut s, "SELECT tag, oid, oa, ob, nid, na, nb FROM audit") {
                Ok(r) => r,
                Err(x) => {
                    fail(ctx, &s, "audit-unreadable".into(), json!(x));
                    break;
                }
            };
            let mut got: Vec<Audit> = audit
                .iter()
                .map(|r| {
                    let tag = if let Canon::Text(s) = &r[0] { s.clone() } else { "?".into() };
                    (tag, [to_v(&r[1]), to_v(&r[2]), to_v(&r[3])], [to_v(&r[4]), to_v(&r[5]), to_v(&r[6])])
                })
                .collect();
            got.sort();
            // remove the optional firings that are present
            let mut may = e.may.clone();
            let mut rest: Vec<Audit> = vec![];
            for g in got.iter() {
                if let Some(i) = may.iter().position(|m| m == g) {
                    // only optional if not also required: required ones are matched below first
                    let need = e.must.iter().filter(|m| *m == g).count();
                    let have = rest.iter().filter(|m| *m == g).count();
                    if have >= need {
                        may.remove(i);
                        continue;
                    }
                }
                rest.push(g.clone());
            }
            let mut must = e.must.clone();
            must.sort();
            rest.sort();
            if rest != must {
                // classify by the trigger whose firings differ
                let mut culprit = String::new();
                let mut kind = "";
                for tr in &trigs {
                    let g = rest.iter().filter(|a| a.0 == tr.tag).count();
                    let m = must.iter().filter(|a| a.0 == tr.tag).count();
                    if g != m {
                        culprit = tr.shape();
                        kind = if g < m { "missing-firing" } else { "extra-firing" };
                        break;
                    }
                }
                if culprit.is_empty() {
                    kind = "wrong-row-image";
                    for tr in &trigs {
                        let g: Vec<&Audit> = rest.iter().filter(|a| a.0 == tr.tag).collect();
                        let m: Vec<&Audit> = must.iter().filter(|a| a.0 == tr.tag).collect();
                        if g != m {
                            culprit = tr.shape();
                            break;
                        }
                    }
                }
                let mut gr: Vec<CRow> = audit.clone();
                sort_rows(&mut gr);
                fail(ctx, &s, format!("{}:{}|{}", kind, culprit, shape.split('-').next().unwrap()), json!({"audit": show_rows(&gr, 40), "expected_must": format!("{:?}", must), "expected_may": format!("{:?}", e.may), "affected_rows": e.affected}));
                break;
            }
            for tr in involved.iter() {
                ctx.nontrivial(format!("{}|{}|rows={}", tr, shape, e.affected.min(3)));
            }
            ctx.count("statements-checked", 1);
            ctx.count("firings-checked", got.len() as u64);
            t = e.after.clone();
        }
        ctx.sample(|| json!({"triggers": trigs.iter().map(|t| t.header()).collect::<Vec<_>>(), "history": s.history_json()}));
    }
}
