//! C01 — SELECT results agree with the reference engine (bundled SQLite) on the shared subset.

use serde_json::json;

use crate::core::canon::{multiset_eq, show_rows, CRow};
use crate::core::ctx::Ctx;
use crate::core::rng::Rng;
use crate::gen::ast::*;
use crate::gen::ast::col as col_e;
use crate::gen::build::*;
use crate::gen::dual::*;

/// ORDER BY / LIMIT decoration. Returns the comparison mode.
fn decorate_order(rng: &mut Rng, q: &mut Q) -> Compare {
    let n = q.items.len();
    if n == 0 {
        return Compare::Multiset;
    }
    match rng.below(4) {
        0 | 1 => Compare::Multiset,
        2 => {
            // ORDER BY a strict subset of the output columns: order is only partly determined
            let k = rng.range(1, n as i64) as usize;
            q.order_by = vec![(int(k as i64), rng.chance(1, 2))];
            if n == 1 {
                if rng.chance(1, 2) {
                    q.limit = Some(rng.below(4));
                    if rng.chance(1, 2) {
                        q.offset = Some(rng.below(3));
                    }
                }
                Compare::Sequence
            } else {
                Compare::Multiset
            }
        }
        _ => {
            // ORDER BY every output column (random order / direction): sequence fully determined up to
            // indistinguishable duplicates, so LIMIT / OFFSET are comparable too
            let mut pos: Vec<usize> = (1..=n).collect();
            rng.shuffle(&mut pos);
            q.order_by = pos.into_iter().map(|p| (int(p as i64), rng.chance(1, 3))).collect();
            if rng.chance(1, 2) {
                q.limit = Some(rng.below(5));
                if rng.chance(1, 2) {
                    q.offset = Some(rng.below(4));
                }
            }
            Compare::Sequence
        }
    }
}

fn gen_query(rng: &mut Rng, tables: &[Table]) -> (Q, Compare, &'static str) {
    let shape = rng.below(12);
    let mut g = Gen { rng, tables, sub_budget: 2, allow_like: false };
    match shape {
        10 => {
            // set operation whose operands are aggregate blocks (same aggregate text on both sides is likely)
            let f = *g.rng.pick(&["SUM", "COUNT", "MAX", "MIN", "AVG"]);
            let col = *g.rng.pick(&["a", "b", "id"]);
            let mut side = |g: &mut Gen| {
                let t = &g.tables[g.rng.usize(g.tables.len())];
                let sc = Scope::of_tables(&[(t, &t.name)]);
                let mut q = Q { items: vec![(E::Agg(f, false, Some(Box::new(col_e("", col)))), String::new())], from: vec![From::Table(t.name.clone(), String::new())], ..Default::default() };
                if g.rng.chance(1, 2) {
                    q.where_ = Some(g.pred(&sc, 0));
                }
                if g.rng.chance(1, 3) {
                    let k = sc.pick(g.rng, Ty::Int).unwrap();
                    q.group_by.push(k);
                }
                q
            };
            g.sub_budget = 0;
            let mut l = side(&mut g);
            let r = side(&mut g);
            let (op, all) = *g.rng.pick(&[("UNION", true), ("UNION", true), ("UNION", false), ("EXCEPT", true), ("INTERSECT", true)]);
            l.setop = Some((op, all, Box::new(r)));
            return (l, Compare::Multiset, "agg-setop");
        }
        11 => {
            // aggregate over a derived table that itself aggregates (same function and column alias)
            let f = *g.rng.pick(&["SUM", "COUNT", "MAX", "MIN"]);
            let t = &g.tables[g.rng.usize(g.tables.len())];
            let sc = Scope::of_tables(&[(t, &t.name)]);
            let k = sc.pick(g.rng, Ty::Int).unwrap();
            let v = *g.rng.pick(&["a", "b", "id"]);
            let mut inner = Q { items: vec![(k.clone(), "g".into()), (E::Agg(f, false, Some(Box::new(col_e("", v)))), v.to_string())], from: vec![From::Table(t.name.clone(), String::new())], ..Default::default() };
            inner.group_by.push(k);
            g.sub_budget = 0;
            if g.rng.chance(1, 3) {
                inner.where_ = Some(g.pred(&sc, 0));
            }
            let outer = Q { items: vec![(E::Agg(f, false, Some(Box::new(col_e("d", v)))), String::new()), (E::Agg("COUNT", false, None), String::new())], from: vec![From::Derived(Box::new(inner), "d".into())], ..Default::default() };
            return (outer, Compare::Multiset, "agg-over-derived-agg");
        }
        0..=3 => {
            let mut q = g.plain_select(2);
            let how = decorate_order(g.rng, &mut q);
            (q, how, "plain")
        }
        4..=6 => {
            let mut q = g.agg_select(2);
            let how = decorate_order(g.rng, &mut q);
            (q, how, "aggregate")
        }
        _ => {
            // set operation over two single-table selects of int columns
            let arity = g.rng.range(1, 2) as usize;
            let mut side = |g: &mut Gen| {
                let t = &g.tables[g.rng.usize(g.tables.len())];
                let sc = Scope::of_tables(&[(t, &t.name)]);
                let items = (0..arity).map(|_| (g.int_expr(&sc, 1), String::new())).collect();
                let mut q = Q { items, from: vec![From::Table(t.name.clone(), String::new())], ..Default::default() };
                if g.rng.chance(1, 2) {
                    q.where_ = Some(g.pred(&sc, 1));
                }
                q
            };
            g.sub_budget = 0;
            let mut l = side(&mut g);
            let r = side(&mut g);
            let (op, all) = *g.rng.pick(&[("UNION", false), ("UNION", true), ("INTERSECT", false), ("EXCEPT", false), ("INTERSECT", true), ("EXCEPT", true)]);
            l.setop = Some((op, all, Box::new(r)));
            if g.rng.chance(1, 3) {
                l.order_by = (1..=arity).map(|p| (int(p as i64), g.rng.chance(1, 3))).collect();
                return (l, Compare::Sequence, "setop");
            }
            (l, Compare::Multiset, "setop")
        }
    }
}

/// Reference answer for INTERSECT ALL / EXCEPT ALL (not offered by SQLite): multiset algebra over the
/// reference engine's answers for both operands.
fn setop_all_reference(c: &rusqlite::Connection, q: &Q) -> Option<Result<Vec<CRow>, String>> {
    let (op, all, rhs) = q.setop.as_ref()?;
    if !*all || *op == "UNION" {
        return None;
    }
    let mut l = q.clone();
    l.setop = None;
    l.order_by.clear();
    let a = match sqlite_query(c, &l.render(Dialect::Sqlite)) {
        Ok(x) => x,
        Err(e) => return Some(Err(e)),
    };
    let mut b = match sqlite_query(c, &rhs.render(Dialect::Sqlite)) {
        Ok(x) => x,
        Err(e) => return Some(Err(e)),
    };
    let mut out = Vec::new();
    for row in a {
        let pos = b.iter().position(|r| crate::core::canon::rows_eq(r, &row, 0.0));
        match (*op, pos) {
            ("INTERSECT", Some(p)) => {
                b.remove(p);
                out.push(row);
            }
            ("EXCEPT", Some(p)) => {
                b.remove(p);
            }
            ("EXCEPT", None) => out.push(row),
            _ => {}
        }
    }
    Some(Ok(out))
}

/// Sequence comparison is sound only when ORDER BY names every output column (by position).
pub fn mode_of(q: &Q) -> Compare {
    let n = q.items.len();
    if n == 0 || q.order_by.is_empty() {
        return Compare::Multiset;
    }
    let mut covered = std::collections::BTreeSet::new();
    for (e, _) in &q.order_by {
        if let E::Lit(V::Int(p)) = e {
            covered.insert(*p);
        }
    }
    if (1..=n as i64).all(|p| covered.contains(&p)) {
        Compare::Sequence
    } else {
        Compare::Multiset
    }
}

fn check(tables: &[Table], q: &Q) -> Result<Option<Diff>, String> {
    let mut s = load_vibe(tables);
    let c = load_sqlite(tables);
    check_on(&mut s, &c, q, &mode_of(q))
}

fn check_on(s: &mut crate::core::session::Session, c: &rusqlite::Connection, q: &Q, how: &Compare) -> Result<Option<Diff>, String> {
    if let Some(r) = setop_all_reference(c, q) {
        let rs = r?;
        return Ok(match s.exec(&q.render(Dialect::Vibe)) {
            crate::core::session::Outcome::Rows(rv) => {
                let rv = norm_bools(rv);
                if multiset_eq(&rv, &rs, 1e-9) {
                    None
                } else {
                    Some(Diff { kind: if rv.len() < rs.len() { "missing-rows" } else if rv.len() > rs.len() { "extra-rows" } else { "wrong-values" }.into(), vibe: show_rows(&rv, 12).join(" "), reference: show_rows(&rs, 12).join(" ") })
                }
            }
            crate::core::session::Outcome::Err(e) => Some(Diff { kind: format!("error:{}", err_class(&e)), vibe: e, reference: show_rows(&rs, 12).join(" ") }),
            crate::core::session::Outcome::Panic(p) => Some(Diff { kind: format!("panic:{}", crate::core::util::panic_class(&p)), vibe: p, reference: String::new() }),
            o => Some(Diff { kind: "not-rows".into(), vibe: o.brief(), reference: String::new() }),
        });
    }
    diff_query(s, c, q, how)
}

pub fn run(ctx: &mut Ctx) {
    let total = ctx.n(5000, 40_000);
    for case in ctx.my_cases(total) {
        ctx.begin_case(case);
        let mut rng = ctx.rng(case);
        let nt = rng.range(1, 3) as usize;
        let tables = gen_tables(&mut rng, nt, 7);
        let mut s = load_vibe(&tables);
        let c = load_sqlite(&tables);
        for qi in 0..10 {
            let (q, _how, shape) = gen_query(&mut rng, &tables);
            let how = mode_of(&q);
            ctx.eval();
            s.history.clear();
            match check_on(&mut s, &c, &q, &how) {
                Err(_) => ctx.count("reference_rejected", 1),
                Ok(None) => {
                    let tags: Vec<String> = q.tags().into_iter().collect();
                    ctx.count_probes(&s.last_probes);
                    // non-trivial: the feature set was exercised and agreed
                    ctx.nontrivial(format!("{}:{}", shape, tags.join(",")));
                    if qi == 0 {
                        ctx.sample(|| json!({"shape": shape, "sql": q.render(Dialect::Vibe), "compare": format!("{:?}", how), "tables": tables_json(&tables)}));
                    }
                }
                Ok(Some(d)) => {
                    let kind = d.kind.clone();
                    let (t2, q2, evals) = shrink(&tables, &q, &kind, |t, q| check(t, q).ok().flatten().map(|d| d.kind), 160);
                    let d2 = check(&t2, &q2).ok().flatten().unwrap_or(d);
                    let mut tags: Vec<String> = q2.tags().into_iter().collect();
                    tags.extend(data_tags(&t2));
                    ctx.count("shrink_evaluations", evals as u64);
                    ctx.violation(
                        case,
                        canon_sig(&kind, &tags),
                        json!({"sql": q2.render(Dialect::Vibe), "reference_sql": q2.render(Dialect::Sqlite), "tables": tables_json(&t2), "vibesql": d2.vibe, "reference": d2.reference,
                               "compare": format!("{:?}", how), "original_sql": q.render(Dialect::Vibe)}),
                    );
                }
            }
        }
    }
}
