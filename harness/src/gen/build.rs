//! Generators for tables and queries (well-typed by construction, small by construction).

use super::ast::*;
use crate::core::rng::Rng;

pub const TEXTS: [&str; 6] = ["a", "b", "ab", "B", "", "zz"];

pub fn gen_value(rng: &mut Rng, ty: Ty, null_pct: u64) -> V {
    if rng.chance(null_pct, 100) {
        return V::Null;
    }
    match ty {
        Ty::Int => V::Int(rng.range(-3, 6)),
        Ty::Text => V::Str(rng.pick(&TEXTS).to_string()),
    }
}

/// Tables t1..tn with columns id (unique, non-null), a, b (INTEGER), c (VARCHAR).
pub fn gen_tables(rng: &mut Rng, n: usize, max_rows: usize) -> Vec<Table> {
    (1..=n)
        .map(|i| {
            let rows_n = match rng.below(8) {
                0 => 0,
                1 => 1,
                _ => rng.range(2, max_rows as i64) as usize,
            };
            let null_pct = *rng.pick(&[0u64, 15, 15, 40, 100]);
            let rows = (0..rows_n)
                .map(|r| vec![V::Int(r as i64 + 1), gen_value(rng, Ty::Int, null_pct), gen_value(rng, Ty::Int, null_pct), gen_value(rng, Ty::Text, null_pct)])
                .collect();
            Table {
                name: format!("t{}", i),
                cols: vec![("id".into(), Ty::Int), ("a".into(), Ty::Int), ("b".into(), Ty::Int), ("c".into(), Ty::Text)],
                rows,
            }
        })
        .collect()
}

/// What is in scope while generating expressions: (qualifier, column, type).
#[derive(Clone, Default)]
pub struct Scope {
    pub cols: Vec<(String, String, Ty)>,
}

impl Scope {
    pub fn of_tables(items: &[(&Table, &str)]) -> Scope {
        let mut s = Scope::default();
        for (t, alias) in items {
            for (c, ty) in &t.cols {
                s.cols.push((alias.to_string(), c.clone(), *ty));
            }
        }
        s
    }
    pub fn pick(&self, rng: &mut Rng, ty: Ty) -> Option<E> {
        let v: Vec<&(String, String, Ty)> = self.cols.iter().filter(|c| c.2 == ty).collect();
        if v.is_empty() {
            return None;
        }
        let c = v[rng.usize(v.len())];
        Some(E::Col(c.0.clone(), c.1.clone()))
    }
    pub fn merge(&self, o: &Scope) -> Scope {
        let mut s = self.clone();
        s.cols.extend(o.cols.iter().cloned());
        s
    }
}

pub struct Gen<'a> {
    pub rng: &'a mut Rng,
    pub tables: &'a [Table],
    /// allow subqueries (depth budget)
    pub sub_budget: u32,
    pub allow_like: bool,
}

impl<'a> Gen<'a> {
    pub fn int_expr(&mut self, sc: &Scope, depth: u32) -> E {
        if depth == 0 && self.rng.chance(1, 14) {
            return E::Lit(V::Null);
        }
        let r = self.rng.below(if depth == 0 { 3 } else { 12 });
        match r {
            0 | 1 | 3 | 4 => sc.pick(self.rng, Ty::Int).unwrap_or_else(|| int(1)),
            2 => int(self.rng.range(-2, 5)),
            5 => E::Bin("+", Box::new(self.int_expr(sc, depth - 1)), Box::new(self.int_expr(sc, depth - 1))),
            6 => E::Bin("-", Box::new(self.int_expr(sc, depth - 1)), Box::new(self.int_expr(sc, depth - 1))),
            7 => E::Bin("*", Box::new(self.int_expr(sc, depth - 1)), Box::new(self.int_expr(sc, depth - 1))),
            8 => E::Case(Box::new(self.pred(sc, depth - 1)), Box::new(self.int_expr(sc, depth - 1)), Box::new(self.int_expr(sc, depth - 1))),
            9 => E::Coalesce(vec![self.int_expr(sc, depth - 1), self.int_expr(sc, depth - 1)]),
            10 => E::Lit(V::Null),
            _ => {
                if self.sub_budget > 0 {
                    self.sub_budget -= 1;
                    E::Sub(Box::new(self.scalar_subquery(sc)))
                } else {
                    sc.pick(self.rng, Ty::Int).unwrap_or_else(|| int(0))
                }
            }
        }
    }

    pub fn text_expr(&mut self, sc: &Scope) -> E {
        if self.rng.chance(2, 3) {
            sc.pick(self.rng, Ty::Text).unwrap_or_else(|| E::Lit(V::Str("a".into())))
        } else {
            E::Lit(V::Str(self.rng.pick(&TEXTS).to_string()))
        }
    }

    pub fn cmp_op(&mut self) -> &'static str {
        *self.rng.pick(&["=", "<>", "<", "<=", ">", ">="])
    }

    pub fn pred(&mut self, sc: &Scope, depth: u32) -> P {
        let r = self.rng.below(if depth == 0 { 6 } else { 16 });
        match r {
            0 | 1 | 2 => {
                let op = self.cmp_op();
                P::Cmp(op, self.int_expr(sc, depth.min(1)), self.int_expr(sc, depth.min(1)))
            }
            3 => {
                let op = self.cmp_op();
                P::Cmp(op, self.text_expr(sc), self.text_expr(sc))
            }
            4 => {
                let e = if self.rng.chance(1, 3) { self.text_expr(sc) } else { self.int_expr(sc, 0) };
                P::IsNull(e, self.rng.chance(1, 2))
            }
            5 => P::Between(self.int_expr(sc, 0), self.int_expr(sc, 0), self.int_expr(sc, 0), self.rng.chance(1, 4)),
            6 | 7 => P::And(Box::new(self.pred(sc, depth - 1)), Box::new(self.pred(sc, depth - 1))),
            8 | 9 => P::Or(Box::new(self.pred(sc, depth - 1)), Box::new(self.pred(sc, depth - 1))),
            10 => P::Not(Box::new(self.pred(sc, depth - 1))),
            11 => {
                let n = self.rng.range(1, 4);
                let mut v: Vec<E> = (0..n).map(|_| int(self.rng.range(-2, 5))).collect();
                if self.rng.chance(1, 4) {
                    v.push(E::Lit(V::Null));
                }
                P::InList(self.int_expr(sc, 0), v, self.rng.chance(1, 3))
            }
            12 | 13 => {
                if self.sub_budget > 0 {
                    self.sub_budget -= 1;
                    let neg = self.rng.chance(1, 3);
                    let (q, _) = self.column_subquery(sc);
                    P::InSub(self.int_expr(sc, 0), Box::new(q), neg)
                } else {
                    P::IsNull(self.int_expr(sc, 0), false)
                }
            }
            14 => {
                if self.sub_budget > 0 {
                    self.sub_budget -= 1;
                    let neg = self.rng.chance(1, 3);
                    P::Exists(Box::new(self.exists_subquery(sc)), neg)
                } else {
                    P::Lit(Some(true))
                }
            }
            _ => {
                if self.allow_like {
                    let pat = *self.rng.pick(&["a%", "%b", "_", "%", "a_", "ab"]);
                    P::Like(sc.pick(self.rng, Ty::Text).unwrap_or(E::Lit(V::Str("a".into()))), pat.to_string(), self.rng.chance(1, 4))
                } else {
                    let op = self.cmp_op();
                    P::Cmp(op, self.int_expr(sc, 0), self.int_expr(sc, 0))
                }
            }
        }
    }

    fn sub_table(&mut self, avoid_alias: &str) -> (&'a Table, String) {
        let t = &self.tables[self.rng.usize(self.tables.len())];
        let alias = format!("s{}{}", self.rng.below(9), avoid_alias.len());
        (t, alias)
    }

    /// `SELECT AGG(x) FROM t s WHERE [correlated]` — always exactly one row.
    pub fn scalar_subquery(&mut self, outer: &Scope) -> Q {
        let (t, alias) = self.sub_table("x");
        let inner = Scope::of_tables(&[(t, &alias)]);
        let f = *self.rng.pick(&["MAX", "MIN", "COUNT", "SUM"]);
        let arg = inner.pick(self.rng, Ty::Int).unwrap();
        let mut q = Q { items: vec![(E::Agg(f, false, Some(Box::new(arg))), String::new())], from: vec![From::Table(t.name.clone(), alias.clone())], ..Default::default() };
        if self.rng.chance(2, 3) {
            q.where_ = Some(self.corr_pred(&inner, outer));
        }
        q
    }

    /// Single-column subquery for IN.
    pub fn column_subquery(&mut self, outer: &Scope) -> (Q, Ty) {
        let (t, alias) = self.sub_table("y");
        let inner = Scope::of_tables(&[(t, &alias)]);
        let item = inner.pick(self.rng, Ty::Int).unwrap();
        let mut q = Q { items: vec![(item, String::new())], from: vec![From::Table(t.name.clone(), alias.clone())], ..Default::default() };
        match self.rng.below(3) {
            0 => {}
            1 => q.where_ = Some(self.pred(&inner, 0)),
            _ => q.where_ = Some(self.corr_pred(&inner, outer)),
        }
        (q, Ty::Int)
    }

    pub fn exists_subquery(&mut self, outer: &Scope) -> Q {
        let (t, alias) = self.sub_table("z");
        let inner = Scope::of_tables(&[(t, &alias)]);
        let mut q = Q { items: vec![(int(1), String::new())], from: vec![From::Table(t.name.clone(), alias.clone())], ..Default::default() };
        q.where_ = Some(if self.rng.chance(3, 4) { self.corr_pred(&inner, outer) } else { self.pred(&inner, 0) });
        q
    }

    fn corr_pred(&mut self, inner: &Scope, outer: &Scope) -> P {
        let op = if self.rng.chance(2, 3) { "=" } else { self.cmp_op() };
        let a = inner.pick(self.rng, Ty::Int).unwrap();
        let b = outer.pick(self.rng, Ty::Int).unwrap_or_else(|| int(1));
        let p = P::Cmp(op, a, b);
        if self.rng.chance(1, 3) {
            P::And(Box::new(p), Box::new(self.pred(inner, 0)))
        } else {
            p
        }
    }

    /// FROM clause over 1..=2 tables; returns the clause list and the scope.
    pub fn from_clause(&mut self, max_tables: usize) -> (Vec<From>, Scope) {
        let n = if max_tables >= 2 && self.rng.chance(2, 5) { 2 } else { 1 };
        let t1 = &self.tables[self.rng.usize(self.tables.len())];
        if n == 1 {
            if self.rng.chance(1, 8) {
                // derived table wrapping
                let inner = Q { items: t1.cols.iter().map(|(c, _)| (col("", c), String::new())).collect(), from: vec![From::Table(t1.name.clone(), String::new())], ..Default::default() };
                let sc = Scope::of_tables(&[(t1, "d")]);
                return (vec![From::Derived(Box::new(inner), "d".into())], sc);
            }
            let sc = Scope::of_tables(&[(t1, &t1.name)]);
            return (vec![From::Table(t1.name.clone(), String::new())], sc);
        }
        let t2 = &self.tables[self.rng.usize(self.tables.len())];
        let (a1, a2) = ("x".to_string(), "y".to_string());
        let sc = Scope::of_tables(&[(t1, &a1), (t2, &a2)]);
        let l = From::Table(t1.name.clone(), a1.clone());
        let r = From::Table(t2.name.clone(), a2.clone());
        let s1 = Scope::of_tables(&[(t1, &a1)]);
        let s2 = Scope::of_tables(&[(t2, &a2)]);
        let on = {
            let op = if self.rng.chance(3, 4) { "=" } else { self.cmp_op() };
            let p = P::Cmp(op, s1.pick(self.rng, Ty::Int).unwrap(), s2.pick(self.rng, Ty::Int).unwrap());
            if self.rng.chance(1, 4) {
                P::And(Box::new(p), Box::new(self.pred(&sc, 0)))
            } else {
                p
            }
        };
        match self.rng.below(4) {
            0 => (vec![From::Join(Box::new(l), "INNER", Box::new(r), Some(on))], sc),
            1 => (vec![From::Join(Box::new(l), "LEFT", Box::new(r), Some(on))], sc),
            2 => (vec![From::Join(Box::new(l), "CROSS", Box::new(r), None)], sc),
            _ => (vec![l, r], sc),
        }
    }

    /// A rows-producing SELECT (no aggregates), optionally DISTINCT / ORDER BY / LIMIT.
    pub fn plain_select(&mut self, max_tables: usize) -> Q {
        let (from, sc) = self.from_clause(max_tables);
        let n_items = self.rng.range(1, 3);
        let mut items: Vec<(E, String)> = Vec::new();
        for _ in 0..n_items {
            let e = match self.rng.below(6) {
                0 => self.text_expr(&sc),
                1 => E::Pred(Box::new(self.pred(&sc, 1))),
                _ => self.int_expr(&sc, 2),
            };
            items.push((e, String::new()));
        }
        let mut q = Q { items, from, ..Default::default() };
        if self.rng.chance(3, 4) {
            q.where_ = Some(self.pred(&sc, 2));
        }
        q.distinct = self.rng.chance(1, 5);
        q
    }

    /// Aggregate SELECT with optional GROUP BY / HAVING.
    pub fn agg_select(&mut self, max_tables: usize) -> Q {
        let (from, sc) = self.from_clause(max_tables);
        let grouped = self.rng.chance(3, 5);
        let mut q = Q { from, ..Default::default() };
        if grouped {
            let nk = self.rng.range(1, 2);
            for _ in 0..nk {
                let k = if self.rng.chance(1, 4) { sc.pick(self.rng, Ty::Text).unwrap() } else { sc.pick(self.rng, Ty::Int).unwrap() };
                q.group_by.push(k.clone());
                q.items.push((k, String::new()));
            }
        }
        for _ in 0..self.rng.range(1, 3) {
            q.items.push((self.agg(&sc), String::new()));
        }
        if self.rng.chance(1, 2) {
            q.where_ = Some(self.pred(&sc, 1));
        }
        if self.rng.chance(1, 3) {
            let op = self.cmp_op();
            // HAVING compares a numeric aggregate with a number (string-number comparison is an error here)
            let f = *self.rng.pick(&["COUNT", "SUM", "MIN", "MAX", "AVG"]);
            let arg = sc.pick(self.rng, Ty::Int).unwrap();
            let a = if f == "COUNT" && self.rng.chance(1, 2) { E::Agg("COUNT", false, None) } else { E::Agg(f, false, Some(Box::new(arg))) };
            q.having = Some(P::Cmp(op, a, int(self.rng.range(0, 4))));
        }
        q
    }

    pub fn agg(&mut self, sc: &Scope) -> E {
        let f = *self.rng.pick(&["COUNT", "SUM", "AVG", "MIN", "MAX", "COUNT"]);
        if f == "COUNT" && self.rng.chance(1, 2) {
            return E::Agg("COUNT", false, None);
        }
        let arg = if (f == "MIN" || f == "MAX" || f == "COUNT") && self.rng.chance(1, 5) { sc.pick(self.rng, Ty::Text).unwrap() } else if self.rng.chance(1, 4) { self.int_expr(sc, 1) } else { sc.pick(self.rng, Ty::Int).unwrap() };
        let distinct = f != "MIN" && f != "MAX" && self.rng.chance(1, 4);
        E::Agg(f, distinct, Some(Box::new(strip_subqueries(arg))))
    }
}

/// Aggregate arguments stay subquery-free (keeps both dialects on common ground).
pub fn strip_subqueries(e: E) -> E {
    match e {
        E::Sub(_) => int(1),
        E::Bin(op, a, b) => E::Bin(op, Box::new(strip_subqueries(*a)), Box::new(strip_subqueries(*b))),
        E::Neg(a) => E::Neg(Box::new(strip_subqueries(*a))),
        E::Case(_, a, b) => E::Coalesce(vec![strip_subqueries(*a), strip_subqueries(*b)]),
        E::Coalesce(v) => E::Coalesce(v.into_iter().map(strip_subqueries).collect()),
        o => o,
    }
}
