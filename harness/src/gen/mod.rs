pub mod ast;
pub mod build;
pub mod dual;
