//! Run the same data + query on vibesql and on the reference engine (bundled SQLite), compare,
//! shrink failing cases greedily.

use rusqlite::types::ValueRef;
use rusqlite::Connection;

use super::ast::*;
use crate::core::canon::{multiset_eq, seq_eq, show_rows, CRow, Canon};
use crate::core::session::{Outcome, Session};
use crate::core::util::panic_class;

pub fn create_sql(t: &Table, d: Dialect) -> String {
    let cols: Vec<String> = t
        .cols
        .iter()
        .map(|(c, ty)| {
            format!(
                "{} {}",
                c,
                match (ty, d) {
                    (Ty::Int, _) => "INTEGER",
                    (Ty::Text, Dialect::Vibe) => "VARCHAR(20)",
                    (Ty::Text, Dialect::Sqlite) => "TEXT",
                }
            )
        })
        .collect();
    format!("CREATE TABLE {} ({})", t.name, cols.join(", "))
}

/// INSERT statements for vibesql (negative numbers cannot appear in VALUES there).
pub fn insert_sqls(t: &Table) -> Vec<String> {
    t.rows.iter().map(|r| format!("INSERT INTO {} SELECT {}", t.name, r.iter().map(|v| v.sql()).collect::<Vec<_>>().join(", "))).collect()
}

pub fn load_vibe(tables: &[Table]) -> Session {
    let mut s = Session::new();
    s.record = false;
    for t in tables {
        s.must(&create_sql(t, Dialect::Vibe));
        for i in insert_sqls(t) {
            s.must(&i);
        }
    }
    s.record = true;
    s
}

pub fn load_sqlite(tables: &[Table]) -> Connection {
    let c = Connection::open_in_memory().unwrap();
    for t in tables {
        c.execute(&create_sql(t, Dialect::Sqlite), []).unwrap();
        for r in &t.rows {
            c.execute(&format!("INSERT INTO {} VALUES ({})", t.name, r.iter().map(|v| v.sql()).collect::<Vec<_>>().join(", ")), []).unwrap();
        }
    }
    c
}

pub fn sqlite_query(c: &Connection, sql: &str) -> Result<Vec<CRow>, String> {
    let mut st = c.prepare(sql).map_err(|e| e.to_string())?;
    let n = st.column_count();
    let mut rows = st.query([]).map_err(|e| e.to_string())?;
    let mut out = Vec::new();
    loop {
        match rows.next() {
            Ok(Some(r)) => {
                let mut row = Vec::with_capacity(n);
                for i in 0..n {
                    row.push(match r.get_ref(i).map_err(|e| e.to_string())? {
                        ValueRef::Null => Canon::Null,
                        ValueRef::Integer(i) => Canon::Int(i as i128),
                        ValueRef::Real(f) => Canon::num(f),
                        ValueRef::Text(t) => Canon::Text(String::from_utf8_lossy(t).to_string()),
                        ValueRef::Blob(_) => Canon::Text("<blob>".into()),
                    });
                }
                out.push(row);
            }
            Ok(None) => break,
            Err(e) => return Err(e.to_string()),
        }
    }
    Ok(out)
}

pub fn norm_bools(rows: Vec<CRow>) -> Vec<CRow> {
    rows.into_iter().map(|r| r.into_iter().map(|c| c.bool_as_int()).collect()).collect()
}

pub fn err_class(e: &str) -> String {
    let c = panic_class(e);
    let c = c.trim_end_matches('@').to_string();
    c.chars().take(60).collect()
}

#[derive(Clone, Debug, PartialEq)]
pub enum Compare {
    Multiset,
    Sequence,
}

#[derive(Debug)]
pub struct Diff {
    pub kind: String,
    pub vibe: String,
    pub reference: String,
}

/// Compare one query on both engines. None = agree (or reference rejected the query).
pub fn diff_query(s: &mut Session, c: &Connection, q: &Q, how: &Compare) -> Result<Option<Diff>, String> {
    let rs = match sqlite_query(c, &q.render(Dialect::Sqlite)) {
        Ok(r) => r,
        Err(e) => return Err(e),
    };
    let out = s.exec(&q.render(Dialect::Vibe));
    match out {
        Outcome::Rows(rv) => {
            let rv = norm_bools(rv);
            let same = match how {
                Compare::Multiset => multiset_eq(&rv, &rs, 1e-9),
                Compare::Sequence => seq_eq(&rv, &rs, 1e-9),
            };
            if same {
                return Ok(None);
            }
            let kind = if rv.len() != rs.len() {
                if rv.len() < rs.len() { "missing-rows" } else { "extra-rows" }
            } else if *how == Compare::Sequence && multiset_eq(&rv, &rs, 1e-9) {
                "wrong-order"
            } else {
                "wrong-values"
            };
            Ok(Some(Diff { kind: kind.into(), vibe: show_rows(&rv, 12).join(" "), reference: show_rows(&rs, 12).join(" ") }))
        }
        Outcome::Err(e) => Ok(Some(Diff { kind: format!("error:{}", err_class(&e)), vibe: e, reference: show_rows(&rs, 12).join(" ") })),
        Outcome::Panic(p) => Ok(Some(Diff { kind: format!("panic:{}", panic_class(&p)), vibe: p, reference: show_rows(&rs, 12).join(" ") })),
        o => Ok(Some(Diff { kind: "not-rows".into(), vibe: o.brief(), reference: String::new() })),
    }
}

/// Greedy shrink of (tables, query) preserving the discrepancy kind. `fails` returns the kind.
pub fn shrink(tables: &[Table], q: &Q, kind: &str, mut fails: impl FnMut(&[Table], &Q) -> Option<String>, budget: usize) -> (Vec<Table>, Q, usize) {
    let mut tables = tables.to_vec();
    let mut q = q.clone();
    let mut evals = 0usize;
    'outer: loop {
        for cand in q.shrinks() {
            if evals >= budget {
                break 'outer;
            }
            evals += 1;
            if fails(&tables, &cand).as_deref() == Some(kind) {
                q = cand;
                continue 'outer;
            }
        }
        break;
    }
    // drop rows
    let mut progress = true;
    while progress && evals < budget + 80 {
        progress = false;
        for ti in 0..tables.len() {
            let mut ri = 0;
            while ri < tables[ti].rows.len() && evals < budget + 80 {
                let mut t2 = tables.clone();
                t2[ti].rows.remove(ri);
                evals += 1;
                if fails(&t2, &q).as_deref() == Some(kind) {
                    tables = t2;
                    progress = true;
                } else {
                    ri += 1;
                }
            }
        }
    }
    (tables, q, evals)
}

pub fn tables_json(tables: &[Table]) -> serde_json::Value {
    serde_json::Value::Array(
        tables
            .iter()
            .map(|t| serde_json::json!({"create": create_sql(t, Dialect::Vibe), "rows": t.rows.iter().map(|r| r.iter().map(|v| v.sql()).collect::<Vec<_>>().join(", ")).collect::<Vec<_>>() }))
            .collect(),
    )
}

/// Data features that matter for signatures.
pub fn data_tags(tables: &[Table]) -> Vec<String> {
    let mut t = Vec::new();
    if tables.iter().any(|x| x.rows.is_empty()) {
        t.push("data:empty-table".to_string());
    }
    if tables.iter().any(|x| x.rows.iter().any(|r| r.iter().any(|v| *v == V::Null))) {
        t.push("data:null".to_string());
    }
    t
}

/// Signature of a shrunken failing case. Known root causes get one canonical name each so that a
/// listed finding does not depend on which incidental features survived shrinking; everything else
/// is discrepancy kind + full tag set.
pub fn canon_sig(kind: &str, tags: &[String]) -> String {
    let has = |t: &str| tags.iter().any(|x| x == t);
    let subq_pred = has("in-subquery") || has("not-in-subquery") || has("exists") || has("not-exists");
    let null_source = has("data:null") || has("join:LEFT") || has("lit:null");
    if !kind.starts_with("error") && !kind.starts_with("panic") && subq_pred && null_source && (has("pred-as-value") || has("case")) {
        return "subquery-predicate-used-as-value-with-nulls".to_string();
    }
    format!("{}|{}", kind, tags.join(","))
}
