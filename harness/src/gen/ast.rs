//! Small SQL AST owned by the harness: rendering per dialect, feature tags, one-step shrinking.

use std::collections::BTreeSet;

#[derive(Clone, Debug, PartialEq)]
pub enum V {
    Null,
    Int(i64),
    Str(String),
}

impl V {
    pub fn sql(&self) -> String {
        match self {
            V::Null => "NULL".into(),
            V::Int(i) => i.to_string(),
            V::Str(s) => format!("'{}'", s.replace('\'', "''")),
        }
    }
}

#[derive(Clone, Copy, Debug, PartialEq, Eq)]
pub enum Ty {
    Int,
    Text,
}

#[derive(Clone, Debug)]
pub struct Table {
    pub name: String,
    pub cols: Vec<(String, Ty)>,
    pub rows: Vec<Vec<V>>,
}

#[derive(Clone, Copy, Debug, PartialEq, Eq)]
pub enum Dialect {
    Vibe,
    Sqlite,
}

#[derive(Clone, Debug)]
pub enum E {
    Col(String, String), // qualifier ("" = none), column
    Lit(V),
    Bin(&'static str, Box<E>, Box<E>), // + - *
    Neg(Box<E>),
    Case(Box<P>, Box<E>, Box<E>),
    Coalesce(Vec<E>),
    Sub(Box<Q>),                               // scalar subquery
    Agg(&'static str, bool, Option<Box<E>>),   // func, distinct, arg (None = *)
    Pred(Box<P>),                              // predicate used as a value
}

#[derive(Clone, Debug)]
pub enum P {
    Cmp(&'static str, E, E),
    And(Box<P>, Box<P>),
    Or(Box<P>, Box<P>),
    Not(Box<P>),
    IsNull(E, bool),               // negated?
    Between(E, E, E, bool),
    InList(E, Vec<E>, bool),
    InSub(E, Box<Q>, bool),
    Exists(Box<Q>, bool),
    Like(E, String, bool),
    Lit(Option<bool>),             // TRUE / FALSE / NULL
    IsPNull(Box<P>),               // (p) IS NULL
}

#[derive(Clone, Debug)]
pub enum From {
    Table(String, String), // table, alias ("" = none)
    Derived(Box<Q>, String),
    Join(Box<From>, &'static str, Box<From>, Option<P>), // INNER / LEFT / CROSS
}

#[derive(Clone, Debug, Default)]
pub struct Q {
    pub with: Vec<(String, Q)>,
    pub distinct: bool,
    pub items: Vec<(E, String)>, // expr, alias ("" = none); empty = SELECT *
    pub from: Vec<From>,         // comma list
    pub where_: Option<P>,
    pub group_by: Vec<E>,
    pub having: Option<P>,
    pub order_by: Vec<(E, bool)>, // expr, desc
    pub limit: Option<u64>,
    pub offset: Option<u64>,
    pub setop: Option<(&'static str, bool, Box<Q>)>, // UNION/INTERSECT/EXCEPT, ALL
}

pub fn col(q: &str, c: &str) -> E {
    E::Col(q.to_string(), c.to_string())
}
pub fn int(i: i64) -> E {
    E::Lit(V::Int(i))
}

impl E {
    pub fn render(&self, d: Dialect) -> String {
        match self {
            E::Col(q, c) => {
                if q.is_empty() {
                    c.clone()
                } else {
                    format!("{}.{}", q, c)
                }
            }
            E::Lit(v) => v.sql(),
            E::Bin(op, a, b) => format!("({} {} {})", a.render(d), op, b.render(d)),
            E::Neg(a) => format!("(- {})", a.render(d)),
            E::Case(p, a, b) => format!("CASE WHEN {} THEN {} ELSE {} END", p.render(d), a.render(d), b.render(d)),
            E::Coalesce(v) => format!("COALESCE({})", v.iter().map(|e| e.render(d)).collect::<Vec<_>>().join(", ")),
            E::Sub(q) => format!("({})", q.render(d)),
            E::Agg(f, dist, arg) => match arg {
                None => format!("{}(*)", f),
                Some(a) => format!("{}({}{})", f, if *dist { "DISTINCT " } else { "" }, a.render(d)),
            },
            E::Pred(p) => format!("({})", p.render(d)),
        }
    }
    pub fn tags(&self, t: &mut BTreeSet<String>) {
        match self {
            E::Col(..) => {}
            E::Lit(V::Null) => {
                t.insert("lit:null".into());
            }
            E::Lit(_) => {}
            E::Bin(op, a, b) => {
                t.insert(format!("arith:{}", op));
                a.tags(t);
                b.tags(t);
            }
            E::Neg(a) => {
                t.insert("arith:neg".into());
                a.tags(t);
            }
            E::Case(p, a, b) => {
                t.insert("case".into());
                p.tags(t);
                a.tags(t);
                b.tags(t);
            }
            E::Coalesce(v) => {
                t.insert("coalesce".into());
                v.iter().for_each(|e| e.tags(t));
            }
            E::Sub(q) => {
                t.insert("scalar-subquery".into());
                q.tags_into(t);
            }
            E::Agg(f, dist, arg) => {
                t.insert(format!("agg:{}{}", f, if *dist { ":distinct" } else { "" }));
                if let Some(a) = arg {
                    a.tags(t);
                }
            }
            E::Pred(p) => {
                t.insert("pred-as-value".into());
                p.tags(t);
            }
        }
    }
    /// One-step simplifications of this expression.
    pub fn shrinks(&self) -> Vec<E> {
        let mut out = Vec::new();
        match self {
            E::Col(..) | E::Lit(_) => {}
            E::Bin(op, a, b) => {
                out.push((**a).clone());
                out.push((**b).clone());
                for x in a.shrinks() {
                    out.push(E::Bin(op, Box::new(x), b.clone()));
                }
                for x in b.shrinks() {
                    out.push(E::Bin(op, a.clone(), Box::new(x)));
                }
            }
            E::Neg(a) => {
                out.push((**a).clone());
                for x in a.shrinks() {
                    out.push(E::Neg(Box::new(x)));
                }
            }
            E::Case(p, a, b) => {
                out.push((**a).clone());
                out.push((**b).clone());
                for x in p.shrinks() {
                    out.push(E::Case(Box::new(x), a.clone(), b.clone()));
                }
                for x in a.shrinks() {
                    out.push(E::Case(p.clone(), Box::new(x), b.clone()));
                }
                for x in b.shrinks() {
                    out.push(E::Case(p.clone(), a.clone(), Box::new(x)));
                }
            }
            E::Coalesce(v) => {
                for e in v {
                    out.push(e.clone());
                }
                if v.len() > 2 {
                    for i in 0..v.len() {
                        let mut w = v.clone();
                        w.remove(i);
                        out.push(E::Coalesce(w));
                    }
                }
            }
            E::Sub(q) => {
                out.push(E::Lit(V::Int(1)));
                out.push(E::Lit(V::Null));
                for x in q.shrinks() {
                    out.push(E::Sub(Box::new(x)));
                }
            }
            E::Agg(f, dist, arg) => {
                if *dist {
                    out.push(E::Agg(f, false, arg.clone()));
                }
                if let Some(a) = arg {
                    for x in a.shrinks() {
                        out.push(E::Agg(f, *dist, Some(Box::new(x))));
                    }
                }
            }
            E::Pred(p) => {
                for x in p.shrinks() {
                    out.push(E::Pred(Box::new(x)));
                }
            }
        }
        out
    }
}

impl P {
    pub fn render(&self, d: Dialect) -> String {
        match self {
            P::Cmp(op, a, b) => format!("{} {} {}", a.render(d), op, b.render(d)),
            P::And(a, b) => format!("({} AND {})", a.render(d), b.render(d)),
            P::Or(a, b) => format!("({} OR {})", a.render(d), b.render(d)),
            P::Not(a) => format!("(NOT ({}))", a.render(d)),
            P::IsNull(e, n) => format!("{} IS {}NULL", e.render(d), if *n { "NOT " } else { "" }),
            P::Between(e, lo, hi, n) => format!("{} {}BETWEEN {} AND {}", e.render(d), if *n { "NOT " } else { "" }, lo.render(d), hi.render(d)),
            P::InList(e, v, n) => format!("{} {}IN ({})", e.render(d), if *n { "NOT " } else { "" }, v.iter().map(|x| x.render(d)).collect::<Vec<_>>().join(", ")),
            P::InSub(e, q, n) => format!("{} {}IN ({})", e.render(d), if *n { "NOT " } else { "" }, q.render(d)),
            P::Exists(q, n) => format!("{}EXISTS ({})", if *n { "NOT " } else { "" }, q.render(d)),
            P::Like(e, pat, n) => format!("{} {}LIKE '{}'", e.render(d), if *n { "NOT " } else { "" }, pat),
            P::Lit(Some(true)) => "TRUE".into(),
            P::Lit(Some(false)) => "FALSE".into(),
            P::Lit(None) => "NULL".into(),
            P::IsPNull(p) => format!("(({}) IS NULL)", p.render(d)),
        }
    }
    pub fn tags(&self, t: &mut BTreeSet<String>) {
        match self {
            P::Cmp(op, a, b) => {
                t.insert(format!("cmp:{}", op));
                a.tags(t);
                b.tags(t);
            }
            P::And(a, b) => {
                t.insert("and".into());
                a.tags(t);
                b.tags(t);
            }
            P::Or(a, b) => {
                t.insert("or".into());
                a.tags(t);
                b.tags(t);
            }
            P::Not(a) => {
                t.insert("not".into());
                a.tags(t);
            }
            P::IsNull(e, n) => {
                t.insert(if *n { "is-not-null" } else { "is-null" }.into());
                e.tags(t);
            }
            P::Between(e, lo, hi, n) => {
                t.insert(if *n { "not-between" } else { "between" }.into());
                e.tags(t);
                lo.tags(t);
                hi.tags(t);
            }
            P::InList(e, v, n) => {
                t.insert(if *n { "not-in-list" } else { "in-list" }.into());
                e.tags(t);
                v.iter().for_each(|x| x.tags(t));
            }
            P::InSub(e, q, n) => {
                t.insert(if *n { "not-in-subquery" } else { "in-subquery" }.into());
                e.tags(t);
                q.tags_into(t);
            }
            P::Exists(q, n) => {
                t.insert(if *n { "not-exists" } else { "exists" }.into());
                q.tags_into(t);
            }
            P::Like(e, _, n) => {
                t.insert(if *n { "not-like" } else { "like" }.into());
                e.tags(t);
            }
            P::Lit(_) => {
                t.insert("bool-literal".into());
            }
            P::IsPNull(p) => {
                t.insert("pred-is-null".into());
                p.tags(t);
            }
        }
    }
    pub fn shrinks(&self) -> Vec<P> {
        let mut out = Vec::new();
        match self {
            P::Cmp(op, a, b) => {
                for x in a.shrinks() {
                    out.push(P::Cmp(op, x, b.clone()));
                }
                for x in b.shrinks() {
                    out.push(P::Cmp(op, a.clone(), x));
                }
            }
            P::And(a, b) | P::Or(a, b) => {
                out.push((**a).clone());
                out.push((**b).clone());
                let mk = |x: P, y: P| if matches!(self, P::And(..)) { P::And(Box::new(x), Box::new(y)) } else { P::Or(Box::new(x), Box::new(y)) };
                for x in a.shrinks() {
                    out.push(mk(x, (**b).clone()));
                }
                for x in b.shrinks() {
                    out.push(mk((**a).clone(), x));
                }
            }
            P::Not(a) => {
                out.push((**a).clone());
                for x in a.shrinks() {
                    out.push(P::Not(Box::new(x)));
                }
            }
            P::IsNull(e, n) => {
                for x in e.shrinks() {
                    out.push(P::IsNull(x, *n));
                }
            }
            P::Between(e, lo, hi, n) => {
                for x in e.shrinks() {
                    out.push(P::Between(x, lo.clone(), hi.clone(), *n));
                }
                for x in lo.shrinks() {
                    out.push(P::Between(e.clone(), x, hi.clone(), *n));
                }
                for x in hi.shrinks() {
                    out.push(P::Between(e.clone(), lo.clone(), x, *n));
                }
            }
            P::InList(e, v, n) => {
                if v.len() > 1 {
                    for i in 0..v.len() {
                        let mut w = v.clone();
                        w.remove(i);
                        out.push(P::InList(e.clone(), w, *n));
                    }
                }
                for x in e.shrinks() {
                    out.push(P::InList(x, v.clone(), *n));
                }
            }
            P::InSub(e, q, n) => {
                for x in q.shrinks() {
                    out.push(P::InSub(e.clone(), Box::new(x), *n));
                }
                for x in e.shrinks() {
                    out.push(P::InSub(x, q.clone(), *n));
                }
            }
            P::Exists(q, n) => {
                for x in q.shrinks() {
                    out.push(P::Exists(Box::new(x), *n));
                }
            }
            P::Like(..) | P::Lit(_) => {}
            P::IsPNull(p) => {
                for x in p.shrinks() {
                    out.push(P::IsPNull(Box::new(x)));
                }
            }
        }
        out
    }
}

impl From {
    pub fn render(&self, d: Dialect) -> String {
        match self {
            From::Table(t, a) => {
                if a.is_empty() {
                    t.clone()
                } else {
                    format!("{} AS {}", t, a)
                }
            }
            From::Derived(q, a) => format!("({}) AS {}", q.render(d), a),
            From::Join(l, kind, r, on) => match on {
                Some(p) => format!("{} {} JOIN {} ON {}", l.render(d), kind, r.render(d), p.render(d)),
                None => format!("{} {} JOIN {}", l.render(d), kind, r.render(d)),
            },
        }
    }
    fn tags(&self, t: &mut BTreeSet<String>) {
        match self {
            From::Table(..) => {}
            From::Derived(q, _) => {
                t.insert("derived-table".into());
                q.tags_into(t);
            }
            From::Join(l, kind, r, on) => {
                t.insert(format!("join:{}", kind));
                l.tags(t);
                r.tags(t);
                if let Some(p) = on {
                    p.tags(t);
                }
            }
        }
    }
    fn shrinks(&self) -> Vec<From> {
        let mut out = Vec::new();
        match self {
            From::Table(..) => {}
            From::Derived(q, a) => {
                for x in q.shrinks() {
                    out.push(From::Derived(Box::new(x), a.clone()));
                }
            }
            From::Join(l, kind, r, on) => {
                if let Some(p) = on {
                    for x in p.shrinks() {
                        out.push(From::Join(l.clone(), kind, r.clone(), Some(x)));
                    }
                }
                if *kind == "LEFT" {
                    out.push(From::Join(l.clone(), "INNER", r.clone(), on.clone()));
                }
            }
        }
        out
    }
}

impl Q {
    pub fn render(&self, d: Dialect) -> String {
        let mut s = String::new();
        if !self.with.is_empty() {
            s.push_str("WITH ");
            s.push_str(&self.with.iter().map(|(n, q)| format!("{} AS ({})", n, q.render(d))).collect::<Vec<_>>().join(", "));
            s.push(' ');
        }
        s.push_str("SELECT ");
        if self.distinct {
            s.push_str("DISTINCT ");
        }
        if self.items.is_empty() {
            s.push('*');
        } else {
            s.push_str(
                &self
                    .items
                    .iter()
                    .map(|(e, a)| if a.is_empty() { e.render(d) } else { format!("{} AS {}", e.render(d), a) })
                    .collect::<Vec<_>>()
                    .join(", "),
            );
        }
        if !self.from.is_empty() {
            s.push_str(" FROM ");
            s.push_str(&self.from.iter().map(|f| f.render(d)).collect::<Vec<_>>().join(", "));
        }
        if let Some(p) = &self.where_ {
            s.push_str(" WHERE ");
            s.push_str(&p.render(d));
        }
        if !self.group_by.is_empty() {
            s.push_str(" GROUP BY ");
            s.push_str(&self.group_by.iter().map(|e| e.render(d)).collect::<Vec<_>>().join(", "));
        }
        if let Some(p) = &self.having {
            s.push_str(" HAVING ");
            s.push_str(&p.render(d));
        }
        if let Some((op, all, rhs)) = &self.setop {
            s.push_str(&format!(" {}{} {}", op, if *all { " ALL" } else { "" }, rhs.render(d)));
        }
        if !self.order_by.is_empty() {
            s.push_str(" ORDER BY ");
            s.push_str(
                &self
                    .order_by
                    .iter()
                    .map(|(e, desc)| {
                        let base = format!("{}{}", e.render(d), if *desc { " DESC" } else { "" });
                        // vibesql documents NULLs last in both directions; ask the reference for the same
                        if d == Dialect::Sqlite {
                            format!("{} NULLS LAST", base)
                        } else {
                            base
                        }
                    })
                    .collect::<Vec<_>>()
                    .join(", "),
            );
        }
        if let Some(l) = self.limit {
            s.push_str(&format!(" LIMIT {}", l));
        }
        if let Some(o) = self.offset {
            s.push_str(&format!(" OFFSET {}", o));
        }
        s
    }

    pub fn tags(&self) -> BTreeSet<String> {
        let mut t = BTreeSet::new();
        self.tags_into(&mut t);
        t
    }

    pub fn tags_into(&self, t: &mut BTreeSet<String>) {
        if !self.with.is_empty() {
            t.insert("cte".into());
            for (_, q) in &self.with {
                q.tags_into(t);
            }
        }
        if self.distinct {
            t.insert("distinct".into());
        }
        if self.items.is_empty() {
            t.insert("select-star".into());
        }
        for (e, _) in &self.items {
            e.tags(t);
        }
        if self.from.len() > 1 {
            t.insert("comma-join".into());
        }
        for f in &self.from {
            f.tags(t);
        }
        if let Some(p) = &self.where_ {
            t.insert("where".into());
            p.tags(t);
        }
        if !self.group_by.is_empty() {
            t.insert("group-by".into());
            for e in &self.group_by {
                e.tags(t);
            }
        }
        if let Some(p) = &self.having {
            t.insert("having".into());
            p.tags(t);
        }
        if !self.order_by.is_empty() {
            t.insert("order-by".into());
            if self.order_by.iter().any(|(_, d)| *d) {
                t.insert("order-desc".into());
            }
            for (e, _) in &self.order_by {
                e.tags(t);
            }
        }
        if self.limit.is_some() {
            t.insert("limit".into());
        }
        if self.offset.is_some() {
            t.insert("offset".into());
        }
        if let Some((op, all, rhs)) = &self.setop {
            t.insert(format!("setop:{}{}", op, if *all { ":all" } else { "" }));
            rhs.tags_into(t);
        }
    }

    /// One-step simplifications (each removes or simplifies one construct).
    pub fn shrinks(&self) -> Vec<Q> {
        let mut out = Vec::new();
        macro_rules! with {
            ($f:expr) => {{
                let mut q = self.clone();
                #[allow(clippy::redundant_closure_call)]
                ($f)(&mut q);
                out.push(q);
            }};
        }
        if let Some((_, _, rhs)) = &self.setop {
            with!(|q: &mut Q| q.setop = None);
            let mut r = (**rhs).clone();
            r.order_by = self.order_by.clone();
            out.push(r);
            for x in rhs.shrinks() {
                let (op, all, _) = self.setop.clone().unwrap();
                with!(|q: &mut Q| q.setop = Some((op, all, Box::new(x.clone()))));
            }
            if self.setop.as_ref().unwrap().1 {
                with!(|q: &mut Q| q.setop.as_mut().unwrap().1 = false);
            }
        }
        if self.limit.is_some() {
            with!(|q: &mut Q| q.limit = None);
        }
        if self.offset.is_some() {
            with!(|q: &mut Q| q.offset = None);
        }
        if !self.order_by.is_empty() && self.limit.is_none() && self.offset.is_none() {
            with!(|q: &mut Q| q.order_by.clear());
            if self.order_by.len() > 1 {
                for i in 0..self.order_by.len() {
                    with!(|q: &mut Q| {
                        q.order_by.remove(i);
                    });
                }
            }
        }
        if self.distinct {
            with!(|q: &mut Q| q.distinct = false);
        }
        if self.having.is_some() {
            with!(|q: &mut Q| q.having = None);
            for x in self.having.as_ref().unwrap().shrinks() {
                with!(|q: &mut Q| q.having = Some(x.clone()));
            }
        }
        if self.where_.is_some() {
            with!(|q: &mut Q| q.where_ = None);
            for x in self.where_.as_ref().unwrap().shrinks() {
                with!(|q: &mut Q| q.where_ = Some(x.clone()));
            }
        }
        if self.items.len() > 1 && self.setop.is_none() {
            for i in 0..self.items.len() {
                // keep ORDER BY positions valid: only drop when ORDER BY is absent
                if self.order_by.is_empty() {
                    with!(|q: &mut Q| {
                        q.items.remove(i);
                    });
                }
            }
        }
        for (i, (e, _)) in self.items.iter().enumerate() {
            for x in e.shrinks() {
                with!(|q: &mut Q| q.items[i].0 = x.clone());
            }
        }
        for (i, f) in self.from.iter().enumerate() {
            for x in f.shrinks() {
                with!(|q: &mut Q| q.from[i] = x.clone());
            }
        }
        if !self.with.is_empty() {
            for (i, (_, cq)) in self.with.iter().enumerate() {
                for x in cq.shrinks() {
                    with!(|q: &mut Q| q.with[i].1 = x.clone());
                }
            }
        }
        out
    }
}
