//! vv — runtime-monitoring harness for vibesql. See /verif/DESIGN.md.

// the CLI is a binary crate: its modules are compiled into the harness so that \\copy runs the
// repository's own code (crate::commands, crate::data_io, crate::executor, crate::formatter are
// the paths those files use for each other)
#[allow(dead_code, unused_imports)]
#[path = "/repo/crates/vibesql-cli/src/commands.rs"]
mod commands;
#[allow(dead_code)]
#[path = "/repo/crates/vibesql-cli/src/data_io.rs"]
mod data_io;
#[allow(dead_code)]
#[path = "/repo/crates/vibesql-cli/src/executor/mod.rs"]
mod executor;
#[allow(dead_code)]
#[path = "/repo/crates/vibesql-cli/src/formatter.rs"]
mod formatter;
mod checks;
mod core;
mod gen;
mod server;

use std::collections::{BTreeMap, BTreeSet};
use std::path::{Path, PathBuf};
use std::process::{Command, Stdio};
use std::time::{Duration, Instant};

use serde_json::{json, Value};

use crate::core::ctx::{Ctx, Tier};

#[global_allocator]
static GLOBAL: crate::core::alloc::Counting = crate::core::alloc::Counting;

pub struct CheckDef {
    pub id: &'static str,
    pub level: &'static str,
    pub rule: &'static str,
    /// minimum distinct_nontrivial for a conclusive quick run
    pub floor: usize,
    pub shards: u64,
    /// per-case CPU budget (ms); exceeding it is reported as a hang of that case
    pub cpu_budget_ms: u64,
    pub run: fn(&mut Ctx),
    pub assumptions: &'static [&'static str],
}

fn root() -> PathBuf {
    PathBuf::from(std::env::var("VERIF_ROOT").unwrap_or_else(|_| "/verif".to_string()))
}

fn find(id: &str) -> &'static CheckDef {
    checks::registry().iter().find(|c| c.id == id).unwrap_or_else(|| {
        eprintln!("unknown check {}", id);
        std::process::exit(2)
    })
}

fn parse_tier(s: &str) -> Tier {
    match s {
        "quick" => Tier::Quick,
        "thorough" => Tier::Thorough,
        _ => {
            eprintln!("tier must be quick|thorough");
            std::process::exit(2)
        }
    }
}

fn main() {
    let args: Vec<String> = std::env::args().collect();
    if args.len() < 2 {
        eprintln!("usage: vv run <ID> <tier> | shard ... | replay <path> | list");
        std::process::exit(2);
    }
    match args[1].as_str() {
        "probe-depth" => {
            // probe-depth <kind> <n> <stack_kb>: parse a nested input on a thread with the given stack
            let kind: u64 = args[2].parse().unwrap();
            let n: usize = args[3].parse().unwrap();
            let kb: usize = args[4].parse().unwrap();
            let input = match kind {
                0 => format!("SELECT {}1{}", "(".repeat(n), ")".repeat(n)),
                1 => format!("SELECT {}TRUE", "NOT ".repeat(n)),
                2 => format!("SELECT {}1", "- ".repeat(n)),
                3 => format!("SELECT * FROM {}t{}", "(SELECT * FROM ".repeat(n), ") AS x".repeat(n)),
                4 => format!("SELECT {}0{}", "CASE WHEN a THEN ".repeat(n), " END".repeat(n)),
                _ => format!("SELECT {}1{}", "ABS(".repeat(n), ")".repeat(n)),
            };
            let h = std::thread::Builder::new().stack_size(kb * 1024).spawn(move || vibesql_parser::Parser::parse_sql(&input).is_ok()).unwrap();
            println!("ok parsed={:?}", h.join().unwrap());
        }
        "sql" => {
            // sql <file>: run ';'-separated statements through the Session and print outcomes
            crate::core::session::install_panic_hook();
            let text = std::fs::read_to_string(&args[2]).unwrap();
            let mut s = crate::core::session::Session::new();
            for stmt in text.split(";\n") {
                let stmt = stmt.trim().trim_end_matches(';');
                if stmt.is_empty() {
                    continue;
                }
                let o = s.exec(stmt);
                println!("{}\n    -> {}   probes={:?}", stmt, o.brief(), s.last_probes);
            }
        }
        "list" => {
            for c in checks::registry() {
                println!("{}", c.id);
            }
        }
        "run" => {
            let def = find(&args[2]);
            let tier = parse_tier(&args[3]);
            let seed: u64 = std::env::var("VERIF_SEED").ok().and_then(|s| s.parse().ok()).unwrap_or(1);
            std::process::exit(run_parent(def, tier, seed));
        }
        "shard" => {
            // shard ID tier seed shard nshards from out
            let def = find(&args[2]);
            let tier = parse_tier(&args[3]);
            let seed: u64 = args[4].parse().unwrap();
            let shard: u64 = args[5].parse().unwrap();
            let nshards: u64 = args[6].parse().unwrap();
            let from: u64 = args[7].parse().unwrap();
            let out = PathBuf::from(&args[8]);
            crate::core::session::install_panic_hook();
            let mut ctx = Ctx::new(def.id, tier, seed, shard, nshards);
            ctx.from_case = from;
            ctx.cur_file = Some(out.with_extension("cur"));
            ctx.out_file = Some(out.clone());
            // (sanitizer builds are an order of magnitude slower: the budget can be scaled)
            let scale: u64 = std::env::var("VV_CPU_BUDGET_SCALE").ok().and_then(|v| v.parse().ok()).unwrap_or(1);
            crate::core::watchdog::start(def.cpu_budget_ms * scale);
            (def.run)(&mut ctx);
            ctx.flush();
            let _ = std::fs::write(out.with_extension("done"), "1");
            // skip destructors of leaked engine state; exit promptly
            std::process::exit(0);
        }
        "replay" => {
            let text = std::fs::read_to_string(&args[2]).expect("read replay file");
            let v: Value = serde_json::from_str(&text).expect("replay json");
            let def = find(v["property"].as_str().unwrap());
            let tier = parse_tier(v["tier"].as_str().unwrap_or("quick"));
            let seed = v["seed"].as_u64().unwrap();
            let case = v["case"].as_u64().unwrap();
            crate::core::session::install_panic_hook();
            let mut ctx = Ctx::new(def.id, tier, seed, 0, 1);
            ctx.only_case = Some(case);
            (def.run)(&mut ctx);
            if ctx.violations.is_empty() {
                println!("replay: case {} of {} did not violate (seed {})", case, def.id, seed);
                std::process::exit(0);
            }
            for viol in &ctx.violations {
                println!("replay: sig={} detail={}", viol.sig, serde_json::to_string_pretty(&viol.detail).unwrap());
            }
            println!("VIOLATION property={} replay={}", def.id, args[2]);
            std::process::exit(1);
        }
        _ => {
            eprintln!("unknown subcommand");
            std::process::exit(2);
        }
    }
}

struct ShardState {
    idx: u64,
    from: u64,
    restarts: u32,
    child: Option<std::process::Child>,
    out: PathBuf,
    parts: Vec<Value>,
    done: bool,
}

fn spawn_shard(def: &CheckDef, tier: Tier, seed: u64, st: &mut ShardState, nshards: u64, tmp: &Path) {
    st.out = tmp.join(format!("s{}_{}.json", st.idx, st.restarts));
    let exe = std::env::current_exe().unwrap();
    let child = Command::new(exe)
        .args([
            "shard",
            def.id,
            tier.name(),
            &seed.to_string(),
            &st.idx.to_string(),
            &nshards.to_string(),
            &st.from.to_string(),
            st.out.to_str().unwrap(),
        ])
        .stdin(Stdio::null())
        .stdout(Stdio::inherit())
        .stderr(Stdio::inherit())
        .spawn()
        .expect("spawn shard");
    st.child = Some(child);
}

fn sanitize(s: &str) -> String {
    let mut o: String = s.chars().map(|c| if c.is_ascii_alphanumeric() || c == '-' || c == '_' { c } else { '_' }).collect();
    o.truncate(100);
    o
}

fn run_parent(def: &'static CheckDef, tier: Tier, seed: u64) -> i32 {
    let t0 = Instant::now();
    let root = root();
    let tmp = root.join("target").join("run").join(format!("{}_{}_{}", def.id, tier.name(), std::process::id()));
    let _ = std::fs::remove_dir_all(&tmp);
    std::fs::create_dir_all(&tmp).unwrap();
    let nshards = def.shards.max(1);
    let wall_limit = Duration::from_secs(if tier == Tier::Quick { 900 } else { 3 * 3600 });

    let mut shards: Vec<ShardState> = (0..nshards)
        .map(|i| ShardState { idx: i, from: 0, restarts: 0, child: None, out: PathBuf::new(), parts: vec![], done: false })
        .collect();
    std::env::set_var("VV_RUN_TMP", &tmp);
    for st in shards.iter_mut() {
        spawn_shard(def, tier, seed, st, nshards, &tmp);
    }
    let mut abort_violations: Vec<Value> = Vec::new();
    let mut inconclusive: Vec<String> = Vec::new();
    loop {
        let mut all_done = true;
        for st in shards.iter_mut() {
            if st.done {
                continue;
            }
            all_done = false;
            let status = match st.child.as_mut().unwrap().try_wait() {
                Ok(Some(s)) => s,
                Ok(None) => continue,
                Err(e) => {
                    inconclusive.push(format!("shard {} wait error {}", st.idx, e));
                    st.done = true;
                    continue;
                }
            };
            // collect whatever was flushed
            if let Ok(text) = std::fs::read_to_string(&st.out) {
                if let Ok(v) = serde_json::from_str::<Value>(&text) {
                    st.parts.push(v);
                }
            }
            let finished = st.out.with_extension("done").exists();
            if status.success() && finished {
                st.done = true;
                continue;
            }
            // abnormal end: attribute to the current case
            let cur_text = std::fs::read_to_string(st.out.with_extension("cur")).unwrap_or_default();
            let mut cur_parts = cur_text.trim_end_matches('\n').splitn(2, '\t');
            let cur = cur_parts.next().and_then(|s| s.trim().parse::<u64>().ok());
            let cur_label = cur_parts.next().unwrap_or("").to_string();
            use std::os::unix::process::ExitStatusExt;
            let why = if let Some(sig) = status.signal() {
                format!("abort:signal={}", sig)
            } else if status.code() == Some(crate::core::watchdog::EXIT_CPU_BUDGET) {
                "hang:cpu-budget-exceeded".to_string()
            } else {
                format!("abort:exit={}", status.code().unwrap_or(-1))
            };
            match cur {
                Some(case) => {
                    let why = if cur_label.is_empty() { why } else { format!("{}:{}", why, cur_label) };
                    abort_violations.push(json!({"sig": why, "case": case, "detail": {"shard": st.idx, "note": "process ended abnormally while running this case; replay the case to reproduce"}}));
                    st.restarts += 1;
                    if st.restarts > 40 {
                        inconclusive.push(format!("shard {} restarted too often", st.idx));
                        st.done = true;
                    } else {
                        st.from = case + 1;
                        spawn_shard(def, tier, seed, st, nshards, &tmp);
                    }
                }
                None => {
                    inconclusive.push(format!("shard {} ended abnormally ({}) before its first case", st.idx, why));
                    st.done = true;
                }
            }
        }
        if all_done {
            break;
        }
        if t0.elapsed() > wall_limit {
            for st in shards.iter_mut() {
                if let Some(c) = st.child.as_mut() {
                    let _ = c.kill();
                    let _ = c.wait();
                }
            }
            inconclusive.push("wall-clock watchdog fired".to_string());
            break;
        }
        std::thread::sleep(Duration::from_millis(50));
    }

    // merge
    let mut evaluations = 0u64;
    let mut distinct: BTreeSet<String> = BTreeSet::new();
    let mut samples: Vec<Value> = Vec::new();
    let mut counters: BTreeMap<String, u64> = BTreeMap::new();
    let mut notes: BTreeSet<String> = BTreeSet::new();
    let mut violations: Vec<Value> = abort_violations;
    let mut exhaustive = true;
    let mut any = false;
    for st in &shards {
        for p in &st.parts {
            any = true;
            evaluations += p["evaluations"].as_u64().unwrap_or(0);
            for d in p["distinct"].as_array().cloned().unwrap_or_default() {
                distinct.insert(d.as_str().unwrap_or("").to_string());
            }
            for s in p["samples"].as_array().cloned().unwrap_or_default() {
                if samples.len() < 8 {
                    samples.push(s);
                }
            }
            if let Some(m) = p["counters"].as_object() {
                for (k, v) in m {
                    *counters.entry(k.clone()).or_insert(0) += v.as_u64().unwrap_or(0);
                }
            }
            for n in p["notes"].as_array().cloned().unwrap_or_default() {
                notes.insert(n.as_str().unwrap_or("").to_string());
            }
            if !p["exhaustive"].as_bool().unwrap_or(false) {
                exhaustive = false;
            }
            for v in p["violations"].as_array().cloned().unwrap_or_default() {
                violations.push(v);
            }
        }
    }
    if !any {
        exhaustive = false;
    }

    // classify against known findings
    let kf_path = root.join("known_findings.json");
    let kf: Value = std::fs::read_to_string(&kf_path).ok().and_then(|t| serde_json::from_str(&t).ok()).unwrap_or(json!({"open": [], "fixed": []}));
    let open: Vec<(String, String)> = kf["open"]
        .as_array()
        .cloned()
        .unwrap_or_default()
        .iter()
        .filter(|e| e["property"].as_str() == Some(def.id))
        .map(|e| (e["sig"].as_str().unwrap_or("").to_string(), e["what"].as_str().unwrap_or("").to_string()))
        .collect();
    let mut known_seen: BTreeMap<String, u64> = BTreeMap::new();
    let mut new_by_sig: BTreeMap<String, Vec<Value>> = BTreeMap::new();
    for v in &violations {
        let sig = v["sig"].as_str().unwrap_or("").to_string();
        if open.iter().any(|(s, _)| *s == sig) {
            *known_seen.entry(sig).or_insert(0) += 1;
        } else {
            new_by_sig.entry(sig).or_default().push(v.clone());
        }
    }
    for (sig, what) in &open {
        if known_seen.contains_key(sig) {
            println!("KNOWN-FINDING: property={} {} [sig={}; observed {}x this run]", def.id, what, sig, known_seen[sig]);
        }
    }
    let rdir = root.join("replays").join(def.id);
    let _ = std::fs::remove_dir_all(&rdir);
    let mut new_count = 0;
    for (sig, vs) in &new_by_sig {
        std::fs::create_dir_all(&rdir).unwrap();
        let v = &vs[0];
        let path = rdir.join(format!("{}.json", sanitize(sig)));
        let replay = json!({
            "property": def.id, "tier": tier.name(), "seed": seed, "case": v["case"], "sig": sig,
            "detail": v["detail"], "other_cases": vs.iter().skip(1).map(|x| x["case"].clone()).collect::<Vec<_>>(),
        });
        std::fs::write(&path, serde_json::to_string_pretty(&replay).unwrap()).unwrap();
        println!("VIOLATION property={} replay={}", def.id, path.display());
        eprintln!("  sig: {}", sig);
        new_count += 1;
    }

    let floor_ok = distinct.len() >= def.floor.max(2);
    if !floor_ok {
        inconclusive.push(format!("only {} distinct non-trivial cases observed (floor {})", distinct.len(), def.floor.max(2)));
    }

    // evidence
    let mut probe_totals = serde_json::Map::new();
    for (k, v) in &counters {
        probe_totals.insert(k.clone(), json!(v));
    }
    let ev = json!({
        "property_id": def.id,
        "tier": tier.name(),
        "seed": seed,
        "level": def.level,
        "coverage": {
            "evaluations": evaluations,
            "distinct_nontrivial": distinct.len(),
            "rule": def.rule,
            "samples": samples,
            "exhaustive": exhaustive,
            "counters": probe_totals,
            "distinct_keys_sample": distinct.iter().take(40).collect::<Vec<_>>(),
            "known_findings_observed": known_seen,
            "new_violation_signatures": new_by_sig.keys().collect::<Vec<_>>(),
            "inconclusive": inconclusive,
            "notes": notes,
            "shards": nshards,
        },
        "assumptions": def.assumptions,
        "wall_s": t0.elapsed().as_secs_f64(),
        "violations": new_count,
    });
    let edir = root.join("evidence");
    std::fs::create_dir_all(&edir).unwrap();
    std::fs::write(edir.join(format!("{}.json", def.id)), serde_json::to_string_pretty(&ev).unwrap()).unwrap();
    let _ = std::fs::remove_dir_all(&tmp);

    println!(
        "{} {} seed={} evaluations={} distinct_nontrivial={} new_violations={} known_findings_observed={} wall={:.1}s",
        def.id,
        tier.name(),
        seed,
        evaluations,
        distinct.len(),
        new_count,
        known_seen.len(),
        t0.elapsed().as_secs_f64()
    );
    if new_count > 0 {
        return 1;
    }
    if !inconclusive.is_empty() {
        for i in &inconclusive {
            println!("INCONCLUSIVE property={} {}", def.id, i);
        }
        return 2;
    }
    0
}
