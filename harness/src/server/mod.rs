//! The server is a bin-only crate: its protocol and auth sources are compiled into the harness
//! unchanged, from the current /repo tree, via #[path].
#![allow(dead_code, unused_imports)]

#[path = "/repo/crates/vibesql-server/src/protocol/messages.rs"]
pub mod messages;

#[path = "/repo/crates/vibesql-server/src/auth/password.rs"]
pub mod password;
