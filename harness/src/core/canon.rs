//! Canonical values: results are compared by value, not by storage type.

use std::cmp::Ordering;
use vibesql_types::SqlValue;

#[derive(Clone, Debug)]
pub enum Canon {
    Null,
    Int(i128),
    Num(f64),
    Text(String),
    Bool(bool),
    Temporal(String),
}

pub type CRow = Vec<Canon>;

impl Canon {
    pub fn from_sql(v: &SqlValue) -> Canon {
        match v {
            SqlValue::Null => Canon::Null,
            SqlValue::Integer(i) | SqlValue::Bigint(i) => Canon::Int(*i as i128),
            SqlValue::Smallint(i) => Canon::Int(*i as i128),
            SqlValue::Unsigned(u) => Canon::Int(*u as i128),
            SqlValue::Numeric(f) | SqlValue::Double(f) => Canon::num(*f),
            SqlValue::Float(f) | SqlValue::Real(f) => Canon::num(*f as f64),
            SqlValue::Character(s) | SqlValue::Varchar(s) => Canon::Text(s.clone()),
            SqlValue::Boolean(b) => Canon::Bool(*b),
            SqlValue::Date(d) => Canon::Temporal(format!("D{}", d)),
            SqlValue::Time(t) => Canon::Temporal(format!("T{}", t)),
            SqlValue::Timestamp(t) => Canon::Temporal(format!("S{}", t)),
            SqlValue::Interval(i) => Canon::Temporal(format!("I{}", i)),
        }
    }
    /// Floats that are exact integers of moderate size collapse to Int so 3 == 3.0.
    pub fn num(f: f64) -> Canon {
        if f.is_finite() && f == f.trunc() && f.abs() < 9.0e15 {
            Canon::Int(f as i128)
        } else {
            Canon::Num(f)
        }
    }
    /// Booleans as 0/1 (for engines without a boolean type).
    pub fn bool_as_int(self) -> Canon {
        match self {
            Canon::Bool(b) => Canon::Int(b as i128),
            o => o,
        }
    }
    pub fn is_null(&self) -> bool {
        matches!(self, Canon::Null)
    }
    fn rank(&self) -> u8 {
        match self {
            Canon::Null => 0,
            Canon::Bool(_) => 1,
            Canon::Int(_) | Canon::Num(_) => 2,
            Canon::Text(_) => 3,
            Canon::Temporal(_) => 4,
        }
    }
    pub fn as_f64(&self) -> Option<f64> {
        match self {
            Canon::Int(i) => Some(*i as f64),
            Canon::Num(f) => Some(*f),
            _ => None,
        }
    }
    /// Total order used only to sort multisets deterministically.
    pub fn total_cmp(&self, o: &Canon) -> Ordering {
        match (self, o) {
            (Canon::Int(a), Canon::Int(b)) => a.cmp(b),
            (Canon::Bool(a), Canon::Bool(b)) => a.cmp(b),
            (Canon::Text(a), Canon::Text(b)) => a.cmp(b),
            (Canon::Temporal(a), Canon::Temporal(b)) => a.cmp(b),
            _ if self.rank() == 2 && o.rank() == 2 => {
                self.as_f64().unwrap().total_cmp(&o.as_f64().unwrap())
            }
            _ => self.rank().cmp(&o.rank()),
        }
    }
    /// Value equality with a relative tolerance for non-integral floats.
    pub fn approx_eq(&self, o: &Canon, tol: f64) -> bool {
        match (self, o) {
            (Canon::Null, Canon::Null) => true,
            (Canon::Int(a), Canon::Int(b)) => a == b,
            (Canon::Bool(a), Canon::Bool(b)) => a == b,
            (Canon::Text(a), Canon::Text(b)) => a == b,
            (Canon::Temporal(a), Canon::Temporal(b)) => a == b,
            _ if self.rank() == 2 && o.rank() == 2 => {
                let (a, b) = (self.as_f64().unwrap(), o.as_f64().unwrap());
                if a.is_nan() || b.is_nan() {
                    return a.is_nan() && b.is_nan();
                }
                if a == b {
                    return true;
                }
                let scale = a.abs().max(b.abs()).max(1e-300);
                ((a - b).abs() / scale) <= tol
            }
            _ => false,
        }
    }
    pub fn show(&self) -> String {
        match self {
            Canon::Null => "NULL".into(),
            Canon::Int(i) => i.to_string(),
            Canon::Num(f) => format!("{:?}", f),
            Canon::Text(s) => format!("'{}'", s),
            Canon::Bool(b) => b.to_string(),
            Canon::Temporal(s) => s.clone(),
        }
    }
}

pub fn row_cmp(a: &CRow, b: &CRow) -> Ordering {
    for (x, y) in a.iter().zip(b.iter()) {
        let c = x.total_cmp(y);
        if c != Ordering::Equal {
            return c;
        }
    }
    a.len().cmp(&b.len())
}

pub fn sort_rows(rows: &mut [CRow]) {
    rows.sort_by(row_cmp);
}

pub fn rows_eq(a: &CRow, b: &CRow, tol: f64) -> bool {
    a.len() == b.len() && a.iter().zip(b.iter()).all(|(x, y)| x.approx_eq(y, tol))
}

/// Multiset equality (sorts copies). With tol > 0 rows are matched after sorting, which is sound
/// as long as the tolerance is far below the spacing of distinct generated values.
pub fn multiset_eq(a: &[CRow], b: &[CRow], tol: f64) -> bool {
    if a.len() != b.len() {
        return false;
    }
    let mut x = a.to_vec();
    let mut y = b.to_vec();
    sort_rows(&mut x);
    sort_rows(&mut y);
    x.iter().zip(y.iter()).all(|(r, s)| rows_eq(r, s, tol))
}

pub fn seq_eq(a: &[CRow], b: &[CRow], tol: f64) -> bool {
    a.len() == b.len() && a.iter().zip(b.iter()).all(|(r, s)| rows_eq(r, s, tol))
}

pub fn show_row(r: &CRow) -> String {
    let v: Vec<String> = r.iter().map(|c| c.show()).collect();
    format!("({})", v.join(", "))
}

pub fn show_rows(rows: &[CRow], max: usize) -> Vec<String> {
    let mut v: Vec<String> = rows.iter().take(max).map(show_row).collect();
    if rows.len() > max {
        v.push(format!("... {} rows total", rows.len()));
    }
    v
}

pub fn from_sql_rows(rows: &[vibesql_storage::Row]) -> Vec<CRow> {
    rows.iter().map(|r| r.values.iter().map(Canon::from_sql).collect()).collect()
}
