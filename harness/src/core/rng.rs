//! Deterministic PRNG (SplitMix64 seeding + xoshiro256**). Every case derives its own stream
//! from (seed, property, case index) so that a single case can be replayed in isolation.

#[derive(Clone)]
pub struct Rng {
    s: [u64; 4],
}

fn splitmix(x: &mut u64) -> u64 {
    *x = x.wrapping_add(0x9E3779B97F4A7C15);
    let mut z = *x;
    z = (z ^ (z >> 30)).wrapping_mul(0xBF58476D1CE4E5B9);
    z = (z ^ (z >> 27)).wrapping_mul(0x94D049BB133111EB);
    z ^ (z >> 31)
}

impl Rng {
    pub fn new(seed: u64) -> Rng {
        let mut x = seed;
        Rng { s: [splitmix(&mut x), splitmix(&mut x), splitmix(&mut x), splitmix(&mut x)] }
    }
    /// Stream for one case of one property.
    pub fn for_case(seed: u64, prop: &str, case: u64) -> Rng {
        let mut h = seed ^ 0xA5A5_5A5A_1234_5678;
        for b in prop.bytes() {
            h = h.wrapping_mul(0x100000001B3) ^ (b as u64);
        }
        let mut x = h ^ case.wrapping_mul(0xD6E8FEB86659FD93);
        let _ = splitmix(&mut x);
        Rng::new(x)
    }
    pub fn next(&mut self) -> u64 {
        let r = self.s[1].wrapping_mul(5).rotate_left(7).wrapping_mul(9);
        let t = self.s[1] << 17;
        self.s[2] ^= self.s[0];
        self.s[3] ^= self.s[1];
        self.s[1] ^= self.s[2];
        self.s[0] ^= self.s[3];
        self.s[2] ^= t;
        self.s[3] = self.s[3].rotate_left(45);
        r
    }
    /// Uniform in 0..n (n > 0).
    pub fn below(&mut self, n: u64) -> u64 {
        if n == 0 {
            return 0;
        }
        self.next() % n
    }
    pub fn range(&mut self, lo: i64, hi: i64) -> i64 {
        // inclusive
        lo + self.below((hi - lo + 1) as u64) as i64
    }
    pub fn usize(&mut self, n: usize) -> usize {
        self.below(n as u64) as usize
    }
    pub fn chance(&mut self, num: u64, den: u64) -> bool {
        self.below(den) < num
    }
    pub fn pick<'a, T>(&mut self, v: &'a [T]) -> &'a T {
        &v[self.usize(v.len())]
    }
    pub fn f64(&mut self) -> f64 {
        (self.next() >> 11) as f64 / (1u64 << 53) as f64
    }
    pub fn shuffle<T>(&mut self, v: &mut [T]) {
        for i in (1..v.len()).rev() {
            let j = self.usize(i + 1);
            v.swap(i, j);
        }
    }
}
