pub mod alloc;
pub mod canon;
pub mod ctx;
pub mod rng;
pub mod session;
pub mod util;
pub mod watchdog;
