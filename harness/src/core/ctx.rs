//! Per-run context: case scheduling, evidence accumulation, violation recording.

use std::collections::{BTreeMap, BTreeSet};

use serde_json::{json, Value};

use super::rng::Rng;

#[derive(Clone, Copy, PartialEq, Eq, Debug)]
pub enum Tier {
    Quick,
    Thorough,
}

impl Tier {
    pub fn name(&self) -> &'static str {
        match self {
            Tier::Quick => "quick",
            Tier::Thorough => "thorough",
        }
    }
}

#[derive(Clone, Debug)]
pub struct Violation {
    pub sig: String,
    pub case: u64,
    pub detail: Value,
}

pub struct Ctx {
    pub prop: &'static str,
    pub tier: Tier,
    pub seed: u64,
    pub shard: u64,
    pub nshards: u64,
    pub from_case: u64,
    pub only_case: Option<u64>,
    pub evaluations: u64,
    pub distinct: BTreeSet<String>,
    pub samples: Vec<Value>,
    pub counters: BTreeMap<String, u64>,
    pub violations: Vec<Violation>,
    pub notes: Vec<String>,
    pub exhaustive: bool,
    pub cur_file: Option<std::path::PathBuf>,
    pub out_file: Option<std::path::PathBuf>,
    pub last_flush: std::time::Instant,
    pub max_samples: usize,
}

impl Ctx {
    pub fn new(prop: &'static str, tier: Tier, seed: u64, shard: u64, nshards: u64) -> Ctx {
        Ctx {
            prop,
            tier,
            seed,
            shard,
            nshards,
            from_case: 0,
            only_case: None,
            evaluations: 0,
            distinct: BTreeSet::new(),
            samples: Vec::new(),
            counters: BTreeMap::new(),
            violations: Vec::new(),
            notes: Vec::new(),
            exhaustive: false,
            cur_file: None,
            out_file: None,
            last_flush: std::time::Instant::now(),
            max_samples: 3,
        }
    }

    pub fn quick(&self) -> bool {
        self.tier == Tier::Quick
    }

    /// Total number of cases for this tier.
    pub fn n(&self, quick: u64, thorough: u64) -> u64 {
        if self.quick() {
            quick
        } else {
            thorough
        }
    }

    /// Case indices this shard must run out of 0..total (strided so results do not depend on
    /// the shard count). Honors replay (`only_case`) and restart (`from_case`).
    pub fn my_cases(&self, total: u64) -> Vec<u64> {
        if let Some(c) = self.only_case {
            return vec![c];
        }
        (0..total).filter(|c| c % self.nshards == self.shard && *c >= self.from_case).collect()
    }

    /// Mark the start of a case (crash attribution + CPU watchdog).
    pub fn begin_case(&mut self, case: u64) {
        self.begin_case_labeled(case, "");
    }

    /// Like begin_case, with a short label that becomes part of the signature if the process
    /// dies (abort / CPU budget) while running this case.
    pub fn begin_case_labeled(&mut self, case: u64, label: &str) {
        super::watchdog::begin_case(case);
        if let Some(p) = &self.cur_file {
            let _ = std::fs::write(p, format!("{}\t{}", case, label));
        }
        if self.last_flush.elapsed().as_secs() >= 3 {
            self.flush();
        }
    }

    pub fn rng(&self, case: u64) -> Rng {
        Rng::for_case(self.seed, self.prop, case)
    }

    pub fn eval(&mut self) {
        self.evaluations += 1;
    }
    pub fn evals(&mut self, n: u64) {
        self.evaluations += n;
    }

    /// Register a distinct non-trivial case shape.
    pub fn nontrivial(&mut self, key: impl Into<String>) {
        if self.distinct.len() < 20000 {
            self.distinct.insert(key.into());
        }
    }

    pub fn sample(&mut self, v: impl FnOnce() -> Value) {
        if self.samples.len() < self.max_samples {
            self.samples.push(v());
        }
    }

    pub fn count(&mut self, key: &str, n: u64) {
        *self.counters.entry(key.to_string()).or_insert(0) += n;
    }

    pub fn count_probes(&mut self, probes: &BTreeMap<&'static str, u64>) {
        for (k, v) in probes {
            self.count(&format!("probe:{}", k), *v);
        }
    }

    pub fn violation(&mut self, case: u64, sig: impl Into<String>, detail: Value) {
        let sig = sig.into();
        // keep at most 3 witnesses per signature per shard
        if self.violations.iter().filter(|v| v.sig == sig).count() < 3 {
            self.violations.push(Violation { sig, case, detail });
            self.flush();
        } else {
            self.count("violations_suppressed_duplicates", 1);
        }
    }

    /// Write the accumulated state so the parent can recover it if this process dies.
    pub fn flush(&mut self) {
        if let Some(p) = &self.out_file {
            let tmp = p.with_extension("tmp");
            if std::fs::write(&tmp, serde_json::to_string(&self.to_json()).unwrap()).is_ok() {
                let _ = std::fs::rename(&tmp, p);
            }
        }
        self.last_flush = std::time::Instant::now();
    }

    pub fn to_json(&self) -> Value {
        json!({
            "prop": self.prop,
            "shard": self.shard,
            "evaluations": self.evaluations,
            "distinct": self.distinct.iter().collect::<Vec<_>>(),
            "samples": self.samples,
            "counters": self.counters,
            "notes": self.notes,
            "exhaustive": self.exhaustive,
            "violations": self.violations.iter().map(|v| json!({"sig": v.sig, "case": v.case, "detail": v.detail})).collect::<Vec<_>>(),
        })
    }
}
