//! Per-case CPU budget. A monitor thread aborts the process (exit code 97) when one case uses
//! more CPU time than the budget; the parent attributes the abort to the case recorded in the
//! shard's `.cur` file and restarts the shard after it.

use std::sync::atomic::{AtomicU64, Ordering};

static CASE_START_CPU_MS: AtomicU64 = AtomicU64::new(0);
static CUR_CASE: AtomicU64 = AtomicU64::new(u64::MAX);
static BUDGET_MS: AtomicU64 = AtomicU64::new(0);

pub const EXIT_CPU_BUDGET: i32 = 97;

pub fn cpu_ms() -> u64 {
    let mut ts = libc::timespec { tv_sec: 0, tv_nsec: 0 };
    unsafe {
        libc::clock_gettime(libc::CLOCK_PROCESS_CPUTIME_ID, &mut ts);
    }
    ts.tv_sec as u64 * 1000 + ts.tv_nsec as u64 / 1_000_000
}

pub fn begin_case(case: u64) {
    CUR_CASE.store(case, Ordering::SeqCst);
    CASE_START_CPU_MS.store(cpu_ms(), Ordering::SeqCst);
}

/// Start the monitor. `budget_ms` of process CPU per case (0 disables).
pub fn start(budget_ms: u64) {
    BUDGET_MS.store(budget_ms, Ordering::SeqCst);
    if budget_ms == 0 {
        return;
    }
    std::thread::spawn(move || loop {
        std::thread::sleep(std::time::Duration::from_millis(200));
        if CUR_CASE.load(Ordering::SeqCst) == u64::MAX {
            continue;
        }
        let used = cpu_ms().saturating_sub(CASE_START_CPU_MS.load(Ordering::SeqCst));
        if used > BUDGET_MS.load(Ordering::SeqCst) {
            eprintln!("watchdog: case {} exceeded CPU budget ({} ms)", CUR_CASE.load(Ordering::SeqCst), used);
            unsafe { libc::_exit(EXIT_CPU_BUDGET) };
        }
    });
}
