//! Client boundary: parse + dispatch exactly as the front-ends do, record a history.

use std::collections::BTreeMap;
use std::panic::{catch_unwind, AssertUnwindSafe};

use vibesql_ast::Statement;
use vibesql_executor as ex;
use vibesql_parser::Parser;
use vibesql_storage::Database;

use super::canon::{from_sql_rows, CRow};

#[derive(Clone, Debug)]
pub enum Outcome {
    Rows(Vec<CRow>),
    Count(usize),
    Ok,
    Err(String),
    Panic(String),
}

impl Outcome {
    pub fn is_err(&self) -> bool {
        matches!(self, Outcome::Err(_) | Outcome::Panic(_))
    }
    pub fn is_panic(&self) -> bool {
        matches!(self, Outcome::Panic(_))
    }
    pub fn rows(&self) -> Option<&Vec<CRow>> {
        match self {
            Outcome::Rows(r) => Some(r),
            _ => None,
        }
    }
    pub fn brief(&self) -> String {
        match self {
            Outcome::Rows(r) => format!("rows[{}] {}", r.len(), super::canon::show_rows(r, 12).join(" ")),
            Outcome::Count(n) => format!("count {}", n),
            Outcome::Ok => "ok".into(),
            Outcome::Err(e) => format!("ERR {}", e),
            Outcome::Panic(e) => format!("PANIC {}", e),
        }
    }
}

thread_local! {
    static LAST_PANIC: std::cell::RefCell<String> = std::cell::RefCell::new(String::new());
    static GUARD_DEPTH: std::cell::Cell<u32> = std::cell::Cell::new(0);
}

/// Install a quiet panic hook that records message + location instead of printing.
pub fn install_panic_hook() {
    std::panic::set_hook(Box::new(|info| {
        let msg = if let Some(s) = info.payload().downcast_ref::<&str>() {
            s.to_string()
        } else if let Some(s) = info.payload().downcast_ref::<String>() {
            s.clone()
        } else {
            "<non-string panic>".to_string()
        };
        let loc = info.location().map(|l| format!("{}:{}", l.file(), l.line())).unwrap_or_default();
        // a panic outside any guard is a harness error: make it visible
        if GUARD_DEPTH.with(|d| d.get()) == 0 {
            eprintln!("harness panic (outside guard): {} @ {}", msg, loc);
        }
        LAST_PANIC.with(|p| *p.borrow_mut() = format!("{} @ {}", msg, loc));
    }));
}

pub fn take_panic() -> String {
    LAST_PANIC.with(|p| std::mem::take(&mut *p.borrow_mut()))
}

/// Run a closure, converting a panic into Err(message @ file:line).
pub fn guard<T>(f: impl FnOnce() -> T) -> Result<T, String> {
    GUARD_DEPTH.with(|d| d.set(d.get() + 1));
    let r = catch_unwind(AssertUnwindSafe(f));
    GUARD_DEPTH.with(|d| d.set(d.get() - 1));
    match r {
        Ok(v) => Ok(v),
        Err(_) => Err(take_panic()),
    }
}

pub fn probes() -> BTreeMap<&'static str, u64> {
    vibesql_types::verif_probe::snapshot()
}

pub fn probe_delta(before: &BTreeMap<&'static str, u64>) -> BTreeMap<&'static str, u64> {
    let now = probes();
    let mut d = BTreeMap::new();
    for (k, v) in now {
        let b = before.get(k).copied().unwrap_or(0);
        if v > b {
            d.insert(k, v - b);
        }
    }
    d
}

#[derive(Clone, Debug)]
pub struct Event {
    pub sql: String,
    pub outcome: String,
}

pub struct Session {
    pub db: Database,
    pub history: Vec<Event>,
    pub record: bool,
    /// probe hits of the last exec
    pub last_probes: BTreeMap<&'static str, u64>,
}

impl Clone for Session {
    fn clone(&self) -> Self {
        Session { db: self.db.clone(), history: self.history.clone(), record: self.record, last_probes: BTreeMap::new() }
    }
}

fn e2s<E: std::fmt::Display>(e: E) -> String {
    e.to_string()
}

impl Session {
    pub fn new() -> Session {
        Session { db: Database::new(), history: Vec::new(), record: true, last_probes: BTreeMap::new() }
    }
    pub fn with_db(db: Database) -> Session {
        Session { db, history: Vec::new(), record: true, last_probes: BTreeMap::new() }
    }

    /// Execute one SQL text; never unwinds.
    pub fn exec(&mut self, sql: &str) -> Outcome {
        let before = probes();
        let db = &mut self.db;
        let out = match guard(|| Self::dispatch(db, sql)) {
            Ok(Ok(o)) => o,
            Ok(Err(e)) => Outcome::Err(e),
            Err(p) => Outcome::Panic(p),
        };
        self.last_probes = probe_delta(&before);
        if self.record {
            self.history.push(Event { sql: sql.to_string(), outcome: out.brief() });
        }
        out
    }

    /// CREATE TRIGGER through the executor API: `header` is parsed (timing, event, granularity,
    /// WHEN) with a dummy body, then the body text is put in place (the parser stores trigger
    /// bodies as debug-printed tokens, so triggers created from SQL text never run).
    pub fn create_trigger(&mut self, header: &str, body: &str) -> Outcome {
        let db = &mut self.db;
        let sql = format!("{} BEGIN SELECT 1; END", header);
        let out = match guard(|| -> Result<Outcome, String> {
            let stmt = Parser::parse_sql(&sql).map_err(|e| format!("parse: {}", e))?;
            match stmt {
                Statement::CreateTrigger(mut t) => {
                    t.triggered_action = vibesql_ast::TriggerAction::RawSql(body.to_string());
                    Self::dispatch_stmt(db, Statement::CreateTrigger(t))
                }
                _ => Err("not a CREATE TRIGGER".to_string()),
            }
        }) {
            Ok(Ok(o)) => o,
            Ok(Err(e)) => Outcome::Err(e),
            Err(p) => Outcome::Panic(p),
        };
        if self.record {
            self.history.push(Event { sql: format!("{} BEGIN {} END  -- body set through the API", header, body), outcome: out.brief() });
        }
        out
    }

    /// Query helper: rows or an error string.
    pub fn query(&mut self, sql: &str) -> Result<Vec<CRow>, String> {
        match self.exec(sql) {
            Outcome::Rows(r) => Ok(r),
            Outcome::Err(e) => Err(e),
            Outcome::Panic(e) => Err(format!("PANIC {}", e)),
            o => Err(format!("not a query: {}", o.brief())),
        }
    }

    pub fn must(&mut self, sql: &str) {
        let o = self.exec(sql);
        if o.is_err() {
            panic!("harness setup statement failed: {} -> {}", sql, o.brief());
        }
    }

    pub fn hit(&self, probe: &str) -> bool {
        self.last_probes.get(probe).copied().unwrap_or(0) > 0
    }

    pub fn history_json(&self) -> serde_json::Value {
        serde_json::Value::Array(
            self.history
                .iter()
                .map(|e| serde_json::json!({"sql": e.sql, "outcome": e.outcome}))
                .collect(),
        )
    }

    pub fn dispatch(db: &mut Database, sql: &str) -> Result<Outcome, String> {
        let stmt = Parser::parse_sql(sql).map_err(|e| format!("parse: {}", e))?;
        Self::dispatch_stmt(db, stmt)
    }

    pub fn dispatch_stmt(db: &mut Database, stmt: Statement) -> Result<Outcome, String> {
        match stmt {
            Statement::Select(s) => {
                let rows = ex::SelectExecutor::new(db).execute(&s).map_err(e2s)?;
                Ok(Outcome::Rows(from_sql_rows(&rows)))
            }
            Statement::CreateTable(s) => ex::CreateTableExecutor::execute(&s, db).map(|_| Outcome::Ok).map_err(e2s),
            Statement::Insert(s) => ex::InsertExecutor::execute(db, &s).map(Outcome::Count).map_err(e2s),
            Statement::Update(s) => ex::UpdateExecutor::execute(&s, db).map(Outcome::Count).map_err(e2s),
            Statement::Delete(s) => ex::DeleteExecutor::execute(&s, db).map(Outcome::Count).map_err(e2s),
            Statement::DropTable(s) => ex::DropTableExecutor::execute(&s, db).map(|_| Outcome::Ok).map_err(e2s),
            Statement::TruncateTable(s) => ex::TruncateTableExecutor::execute(&s, db).map(Outcome::Count).map_err(e2s),
            Statement::AlterTable(s) => ex::AlterTableExecutor::execute(&s, db).map(|_| Outcome::Ok).map_err(e2s),
            Statement::CreateIndex(s) => ex::IndexExecutor::execute(&s, db).map(|_| Outcome::Ok).map_err(e2s),
            Statement::DropIndex(s) => ex::IndexExecutor::execute_drop(&s, db).map(|_| Outcome::Ok).map_err(e2s),
            Statement::Reindex(s) => ex::IndexExecutor::execute_reindex(&s, db).map(|_| Outcome::Ok).map_err(e2s),
            Statement::Analyze(s) => ex::AnalyzeExecutor::execute(&s, db).map(|_| Outcome::Ok).map_err(e2s),
            Statement::CreateView(s) => ex::advanced_objects::execute_create_view(&s, db).map(|_| Outcome::Ok).map_err(e2s),
            Statement::DropView(s) => ex::advanced_objects::execute_drop_view(&s, db).map(|_| Outcome::Ok).map_err(e2s),
            Statement::CreateTrigger(s) => ex::TriggerExecutor::create_trigger(db, &s).map(|_| Outcome::Ok).map_err(e2s),
            Statement::DropTrigger(s) => ex::TriggerExecutor::drop_trigger(db, &s).map(|_| Outcome::Ok).map_err(e2s),
            Statement::CreateSchema(s) => ex::SchemaExecutor::execute_create_schema(&s, db).map(|_| Outcome::Ok).map_err(e2s),
            Statement::DropSchema(s) => ex::SchemaExecutor::execute_drop_schema(&s, db).map(|_| Outcome::Ok).map_err(e2s),
            Statement::SetSchema(s) => ex::SchemaExecutor::execute_set_schema(&s, db).map(|_| Outcome::Ok).map_err(e2s),
            Statement::SetVariable(s) => ex::SchemaExecutor::execute_set_variable(&s, db).map(|_| Outcome::Ok).map_err(e2s),
            Statement::Grant(s) => ex::GrantExecutor::execute_grant(&s, db).map(|_| Outcome::Ok).map_err(e2s),
            Statement::Revoke(s) => ex::RevokeExecutor::execute_revoke(&s, db).map(|_| Outcome::Ok).map_err(e2s),
            Statement::CreateRole(s) => ex::RoleExecutor::execute_create_role(&s, db).map(|_| Outcome::Ok).map_err(e2s),
            Statement::DropRole(s) => ex::RoleExecutor::execute_drop_role(&s, db).map(|_| Outcome::Ok).map_err(e2s),
            Statement::BeginTransaction(_) => db.begin_transaction().map(|_| Outcome::Ok).map_err(e2s),
            Statement::Commit(_) => db.commit_transaction().map(|_| Outcome::Ok).map_err(e2s),
            Statement::Rollback(_) => db.rollback_transaction().map(|_| Outcome::Ok).map_err(e2s),
            Statement::Savepoint(s) => db.create_savepoint(s.name.clone()).map(|_| Outcome::Ok).map_err(e2s),
            Statement::RollbackToSavepoint(s) => db.rollback_to_savepoint(s.name.clone()).map(|_| Outcome::Ok).map_err(e2s),
            Statement::ReleaseSavepoint(s) => db.release_savepoint(s.name.clone()).map(|_| Outcome::Ok).map_err(e2s),
            other => Err(format!("harness: statement kind not dispatched: {:?}", std::mem::discriminant(&other))),
        }
    }
}
