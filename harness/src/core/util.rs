//! Small shared helpers.

/// Normalise a panic text "message @ file:line" into a stable class: digits collapsed, quoted
/// payloads dropped, path reduced to the file name (line numbers are not part of the class).
pub fn panic_class(p: &str) -> String {
    let (msg, loc) = match p.rfind(" @ ") {
        Some(i) => (&p[..i], &p[i + 3..]),
        None => (p, ""),
    };
    let file = loc.rsplit('/').next().unwrap_or("").split(':').next().unwrap_or("");
    let mut out = String::new();
    let mut in_quote: Option<char> = None;
    let mut last_digit = false;
    for c in msg.chars() {
        if let Some(q) = in_quote {
            if c == q {
                in_quote = None;
                out.push(q);
            }
            continue;
        }
        if c == '`' || c == '"' || c == '\'' {
            in_quote = Some(c);
            out.push(c);
            last_digit = false;
            continue;
        }
        if c.is_ascii_digit() {
            if !last_digit {
                out.push('N');
            }
            last_digit = true;
            continue;
        }
        last_digit = false;
        out.push(c);
        if out.len() > 90 {
            break;
        }
    }
    format!("{}@{}", out.trim(), file)
}

pub fn sql_quote(s: &str) -> String {
    format!("'{}'", s.replace('\'', "''"))
}

pub fn trunc(s: &str, n: usize) -> String {
    if s.chars().count() <= n {
        s.to_string()
    } else {
        let t: String = s.chars().take(n).collect();
        format!("{}…[{} chars]", t, s.chars().count())
    }
}
