//! Counting global allocator: records the largest single allocation request since the last
//! reset (the engine is not modified). Used by C20 to see oversized allocation attempts.

use std::alloc::{GlobalAlloc, Layout, System};
use std::sync::atomic::{AtomicUsize, Ordering};

pub struct Counting;

static MAX_REQ: AtomicUsize = AtomicUsize::new(0);

unsafe impl GlobalAlloc for Counting {
    unsafe fn alloc(&self, l: Layout) -> *mut u8 {
        MAX_REQ.fetch_max(l.size(), Ordering::Relaxed);
        System.alloc(l)
    }
    unsafe fn alloc_zeroed(&self, l: Layout) -> *mut u8 {
        MAX_REQ.fetch_max(l.size(), Ordering::Relaxed);
        System.alloc_zeroed(l)
    }
    unsafe fn realloc(&self, p: *mut u8, l: Layout, new_size: usize) -> *mut u8 {
        MAX_REQ.fetch_max(new_size, Ordering::Relaxed);
        System.realloc(p, l, new_size)
    }
    unsafe fn dealloc(&self, p: *mut u8, l: Layout) {
        System.dealloc(p, l)
    }
}

pub fn reset_max() {
    MAX_REQ.store(0, Ordering::Relaxed);
}

pub fn max_request() -> usize {
    MAX_REQ.load(Ordering::Relaxed)
}
