#!/usr/bin/env python3
"""C30 - Python DB-API parameter binding is faithful.

Twin connections of the compiled extension run the same call history: one binds parameter
tuples to '?' placeholders, the other executes the text obtained by replacing every placeholder
outside string literals by a correctly quoted literal (done here, independently). Outcome class,
fetched rows and the table contents must agree after every call; values bound to SELECT ?, ...
must read back equal; the same SQL text is reused with different tuples (statement cache).
"""
import json, math, os, random, sys, time, hashlib, traceback, multiprocessing

TIER = sys.argv[1] if len(sys.argv) > 1 else os.environ.get("VERIF_TIER", "quick")
ROOT = sys.argv[2] if len(sys.argv) > 2 else "/verif"
SEED = int(os.environ.get("VERIF_SEED", "1"))
sys.path.insert(0, os.path.join(ROOT, "target/py/mod"))

STRS = ["alice", "O'Brien", "what?", "a?b?c", "", "x''y", "50%", "_u_", "ünï 日本", "semi;colon", "'); DROP TABLE t; --",
        "?", "??", "line\nbreak", "a b", "a  b", "a\tb", " a b", "a b ", "NULL", "-5", "1e3", "back\\slash", '"dq"', "tab\there"]
INTS = [0, 1, 2, 3, 7, 42, -1, -5, 32767, 32768, 2147483647, 2147483648, -2147483649, 9223372036854775807, -9223372036854775807]
FLOATS = [0.5, -2.25, 1234.125, 0.001, 3.0, 1e10, -0.0, 123456789.125]

TEMPLATES = [
    ("insert-3", "INSERT INTO t VALUES (?, ?, ?)", ["id", "int", "str"]),
    ("insert-cols", "INSERT INTO t (id, s) VALUES (?, ?)", ["id", "str"]),
    ("insert-literal-qmark", "INSERT INTO t VALUES (?, 7, 'is it?')", ["id"]),
    ("select-by-id", "SELECT id, a, s FROM t WHERE id = ?", ["smallid"]),
    ("select-by-text", "SELECT id FROM t WHERE s = ?", ["str"]),
    ("select-literal-qmark", "SELECT id, s FROM t WHERE s = 'what?' OR id = ?", ["smallid"]),
    ("select-two-literals", "SELECT id FROM t WHERE s = 'a?b?c' AND id <> ? OR s = ?", ["smallid", "str"]),
    ("select-readback", "SELECT ?, ?, ?", ["any", "any", "any"]),
    ("select-readback-mixed", "SELECT '?', ?, 'x''?', ?", ["any", "any"]),
    ("select-range", "SELECT id FROM t WHERE a > ? AND a <= ?", ["int", "int"]),
    ("select-like", "SELECT id FROM t WHERE s LIKE ?", ["like"]),
    ("update-text", "UPDATE t SET s = ? WHERE id = ?", ["str", "smallid"]),
    ("update-int", "UPDATE t SET a = ? WHERE s = ?", ["int", "str"]),
    ("delete", "DELETE FROM t WHERE id = ? OR s = ?", ["smallid", "str"]),
    ("select-in", "SELECT id FROM t WHERE a IN (?, ?, ?)", ["int", "int", "int"]),
    ("select-quoted-ident", 'SELECT id AS "why?" FROM t WHERE id = ?', ["smallid"]),
    ("select-comment", "SELECT id FROM t WHERE id = ? -- really?", ["smallid"]),
]


def gen_value(rng, kind, ids):
    if kind == "id":
        ids[0] += 1
        return ids[0]
    if kind == "smallid":
        return rng.randint(1, max(3, ids[0] + 1))
    if kind == "int":
        return None if rng.random() < 0.1 else rng.choice(INTS)
    if kind == "str":
        return None if rng.random() < 0.1 else rng.choice(STRS)
    if kind == "like":
        return rng.choice(["a%", "%?%", "_%", "%", "O'%", "wh_t?"])
    r = rng.random()
    if r < 0.3:
        return rng.choice(INTS)
    if r < 0.55:
        return rng.choice(STRS)
    if r < 0.75:
        return rng.choice(FLOATS)
    if r < 0.85:
        return rng.choice([True, False])
    return None


def literal(v):
    if v is None:
        return "NULL"
    if isinstance(v, bool):
        return "TRUE" if v else "FALSE"
    if isinstance(v, int):
        return str(v)
    if isinstance(v, float):
        s = repr(v)
        if "e" in s or "E" in s:
            s = format(v, "f")
        return s
    return "'" + v.replace("'", "''") + "'"


def substitute(sql, params):
    """replace placeholders outside '...' literals, "..." identifiers and -- comments"""
    out, i, p, n = [], 0, 0, len(sql)
    while i < n:
        c = sql[i]
        if c == "'" or c == '"':
            j = i + 1
            while j < n:
                if sql[j] == c:
                    if j + 1 < n and sql[j + 1] == c:
                        j += 2
                        continue
                    break
                j += 1
            out.append(sql[i:j + 1])
            i = j + 1
        elif c == "-" and sql[i:i + 2] == "--":
            j = sql.find("\n", i)
            j = n if j < 0 else j
            out.append(sql[i:j])
            i = j
        elif c == "?":
            out.append(literal(params[p]))
            p += 1
            i += 1
        else:
            out.append(c)
            i += 1
    return "".join(out)


def cls(v):
    if v is None:
        return "none"
    if isinstance(v, bool):
        return "bool"
    if isinstance(v, int):
        return "int-neg" if v < 0 else ("int-big" if abs(v) > 2**31 else "int")
    if isinstance(v, float):
        return "float"
    if "?" in v:
        return "str-qmark"
    if "'" in v:
        return "str-quote"
    return "str"


def same_value(a, b):
    if isinstance(a, float) or isinstance(b, float):
        try:
            return math.isclose(float(a), float(b), rel_tol=1e-12, abs_tol=0.0) or float(a) == float(b)
        except Exception:
            return False
    return a == b and (a is None) == (b is None)


def same_rows(x, y, ordered=False):
    if x is None or y is None:
        return x is None and y is None
    if len(x) != len(y):
        return False
    if not ordered:
        key = lambda r: json.dumps([repr(v) for v in r])
        x, y = sorted(x, key=key), sorted(y, key=key)
    return all(len(r) == len(s) and all(same_value(a, b) for a, b in zip(r, s)) for r, s in zip(x, y))


def run_call(cur, sql, params):
    """-> (class, rows)"""
    try:
        if params is None:
            cur.execute(sql)
        else:
            cur.execute(sql, params)
    except BaseException as e:  # pyo3 panics surface as BaseException subclasses
        name = type(e).__name__
        return ("panic" if "Panic" in name else "error:" + name, str(e)[:200])
    rows = None
    if sql.lstrip().upper().startswith("SELECT"):
        try:
            rows = [tuple(r) for r in cur.fetchall()]
        except BaseException as e:
            return ("error-fetch:" + type(e).__name__, str(e)[:200])
    return ("ok", rows)


def table(cur):
    c, r = run_call(cur, "SELECT id, a, s FROM t", None)
    return r if c == "ok" else ("unreadable", c, r)


def run_case(vibesql, seed, case):
    rng = random.Random(int(hashlib.sha256(f"C30/{seed}/{case}".encode()).hexdigest()[:12], 16))
    a_conn, b_conn = vibesql.connect(), vibesql.connect()
    a, b = a_conn.cursor(), b_conn.cursor()
    hist, out = [], {"evals": 0, "distinct": set(), "violations": [], "sample": None}
    for cur in (a, b):
        cur.execute("CREATE TABLE t (id INTEGER, a BIGINT, s VARCHAR(40))")
    ids = [0]
    prev = None
    pool = rng.sample(TEMPLATES, k=rng.randint(3, 6))
    if rng.random() < 0.7:
        pool.append(TEMPLATES[0])
    for step in range(rng.randint(6, 18)):
        kind, sql, kinds = rng.choice(pool)
        params = tuple(gen_value(rng, k, ids) for k in kinds)
        if prev is not None and rng.random() < 0.3:
            # the previous text again with a tuple that differs minimally from the previous one
            # (whitespace, case, one character, int/str twins): the two calls must stay distinct
            kind, sql, kinds = prev[0]
            plist = list(prev[1])
            idxs = [i for i, v in enumerate(plist) if isinstance(v, str) and kinds[i] != "like"] or list(range(len(plist)))
            i = rng.choice(idxs)
            v = plist[i]
            if isinstance(v, str):
                plist[i] = rng.choice([v.replace(" ", "  "), v.replace(" ", "\t"), v + " ", " " + v, v.upper(), v.swapcase(), v + "x", v[:-1], v.replace("a", "b")])
            elif isinstance(v, int) and not isinstance(v, bool):
                plist[i] = rng.choice([v + 1, -v, str(v)]) if kinds[i] == "any" else v + 1
            if kinds[0] == "id":
                ids[0] += 1
                plist[0] = ids[0]
            params = tuple(plist)
        prev = ((kind, sql, kinds), params)
        ref_sql = substitute(sql, params)
        ra, rb = run_call(a, sql, params), run_call(b, ref_sql, None)
        out["evals"] += 1
        pc = "+".join(sorted(set(cls(p) for p in params)))
        repeat = sum(1 for h in hist if h["sql"] == sql)
        hist.append({"sql": sql, "params": [repr(p) for p in params], "bound": ra[0], "reference": rb[0]})
        detail = lambda extra: {"history": hist[-8:], "reference_sql": ref_sql, "detail": extra}
        rep = "repeated-text" if repeat else "first-use"
        if ra[0] == "panic":
            out["violations"].append((f"panic:{kind}", detail(ra[1])))
            break
        if ra[0].split(":")[0] != rb[0].split(":")[0]:
            out["violations"].append((f"outcome-differs:{kind}|{rep}|{pc}", detail({"bound": ra, "reference": rb})))
            break
        if ra[0] == "ok" and not same_rows(ra[1], rb[1]):
            out["violations"].append((f"rows-differ:{kind}|{rep}|{pc}", detail({"bound": ra[1][:10] if ra[1] else ra[1], "reference": rb[1][:10] if rb[1] else rb[1]})))
            break
        ta, tb = table(a), table(b)
        if not (isinstance(ta, list) and isinstance(tb, list) and same_rows(ta, tb)):
            out["violations"].append((f"table-differs-after:{kind}|{rep}|{pc}", detail({"bound": ta if not isinstance(ta, list) else ta[:10], "reference": tb if not isinstance(tb, list) else tb[:10]})))
            break
        if kind.startswith("select-readback") and ra[0] == "ok":
            got = list(ra[1][0]) if ra[1] else []
            exp = list(params)
            if kind == "select-readback-mixed":
                got = [ra[1][0][1], ra[1][0][3]] if ra[1] and len(ra[1][0]) == 4 else ["<shape>"]
            if len(got) != len(exp) or not all(same_value(g, e) for g, e in zip(got, exp)):
                out["violations"].append((f"readback-differs:{kind}|{pc}", detail({"read": [repr(g) for g in got], "bound": [repr(e) for e in exp]})))
                break
        out["distinct"].add(f"{kind}|{rep}|{pc}|{ra[0].split(':')[0]}")
    out["sample"] = hist[:6]
    out["distinct"] = sorted(out["distinct"])
    return out


def worker(args):
    seed, cases = args
    import vibesql
    res = {"evals": 0, "distinct": set(), "violations": [], "samples": []}
    for case in cases:
        try:
            r = run_case(vibesql, seed, case)
        except BaseException as e:
            res["violations"].append((case, f"driver-error:{type(e).__name__}", {"trace": traceback.format_exc()[-1500:]}))
            continue
        res["evals"] += r["evals"]
        res["distinct"].update(r["distinct"])
        for sig, det in r["violations"]:
            res["violations"].append((case, sig, det))
        if len(res["samples"]) < 2:
            res["samples"].append({"case": case, "calls": r["sample"]})
    res["distinct"] = sorted(res["distinct"])
    return res


def main():
    t0 = time.time()
    total = 400 if TIER == "quick" else 12000
    nproc = 16
    chunks = [list(range(i, total, nproc)) for i in range(nproc)]
    try:
        import vibesql  # noqa: F401  (fail early with a clear message)
    except Exception as e:
        print(f"INCONCLUSIVE cannot import the extension module: {e}")
        sys.exit(2)
    with multiprocessing.Pool(nproc) as pool:
        parts = pool.map(worker, [(SEED, c) for c in chunks])
    evals = sum(p["evals"] for p in parts)
    distinct = sorted(set(k for p in parts for k in p["distinct"]))
    viol = [v for p in parts for v in p["violations"]]
    known = json.load(open(os.path.join(ROOT, "known_findings.json")))
    open_known = {k["sig"]: k for k in known.get("open", []) if k["property"] == "C30"}
    by_sig = {}
    for case, sig, det in viol:
        by_sig.setdefault(sig, []).append((case, det))
    new_sigs, known_seen = [], {}
    os.makedirs(os.path.join(ROOT, "replays/C30"), exist_ok=True)
    for sig, lst in sorted(by_sig.items()):
        if sig in open_known:
            known_seen[sig] = len(lst)
            print(f"KNOWN-FINDING: property=C30 {open_known[sig]['what']} [sig={sig}; observed {len(lst)}x this run]")
            continue
        new_sigs.append(sig)
        path = os.path.join(ROOT, "replays/C30", "".join(ch if ch.isalnum() or ch in "-_" else "_" for ch in sig) + ".json")
        json.dump({"property": "C30", "sig": sig, "seed": SEED, "tier": TIER, "case": lst[0][0], "other_cases": [c for c, _ in lst[1:20]], "detail": lst[0][1]}, open(path, "w"), indent=1)
        print(f"VIOLATION property=C30 replay={path}")
        print(f"  sig: {sig}")
    floor = 40
    inconclusive = []
    if len(distinct) < floor:
        inconclusive.append(f"distinct_nontrivial {len(distinct)} below floor {floor}")
    ev = {
        "property_id": "C30", "tier": TIER, "seed": SEED, "level": "exploration", "wall_s": round(time.time() - t0, 1),
        "assumptions": ["the reference text is produced by the monitor's own substitution; placeholders inside '...' literals, \"...\" identifiers and -- comments are not placeholders",
                        "bool parameters are compared by Python equality (True == 1)"],
        "coverage": {
            "evaluations": evals, "distinct_nontrivial": len(distinct),
            "rule": "Twin connections of the compiled extension (built from /repo's working tree): histories of 6-18 execute() calls over 17 SQL templates (INSERT / SELECT / UPDATE / DELETE with 1-3 placeholders, '?' inside string literals, quoted identifiers and comments, LIKE patterns, SELECT ?, ?, ? read-back) with tuples drawn from ints (negative, 16/32/64-bit boundaries), floats, strings (quotes, '?', Unicode, SQL fragments, empty), bools and None; 3-6 templates per history so the same text recurs with different tuples. One connection binds the tuple, the other executes the monitor's literal substitution; outcome class, fetched rows and the table contents are compared after every call, read-back values with the bound Python values. distinct = (template, first-use|repeated-text, parameter classes, outcome class).",
            "samples": [s for p in parts for s in p["samples"]][:3],
            "distinct_keys_sample": distinct[:40], "exhaustive": False, "inconclusive": inconclusive,
            "known_findings_observed": known_seen, "new_violation_signatures": new_sigs,
            "violation_counts": {s: len(by_sig[s]) for s in new_sigs},
        },
        "violations": len(new_sigs),
    }
    os.makedirs(os.path.join(ROOT, "evidence"), exist_ok=True)
    json.dump(ev, open(os.path.join(ROOT, "evidence/C30.json"), "w"), indent=1)
    print(f"C30 {TIER} seed={SEED} evaluations={evals} distinct_nontrivial={len(distinct)} new_violations={len(new_sigs)} known_findings_observed={len(known_seen)} wall={ev['wall_s']}s")
    if new_sigs:
        sys.exit(1)
    if inconclusive:
        print("INCONCLUSIVE " + "; ".join(inconclusive))
        sys.exit(2)
    sys.exit(0)


def replay(path):
    """re-run the recorded case alone and print what the monitor sees"""
    import vibesql
    rec = json.load(open(path))
    r = run_case(vibesql, int(rec["seed"]), int(rec["case"]))
    for sig, det in r["violations"]:
        print(f"VIOLATION property=C30 replay={path}")
        print(f"  sig: {sig}")
        print(json.dumps(det, indent=1)[:3000])
    if not r["violations"]:
        print(f"replay of case {rec['case']} (seed {rec['seed']}): no violation observed; calls: {r['evals']}")
    sys.exit(1 if r["violations"] else 0)


if __name__ == "__main__":
    if TIER == "replay":
        replay(sys.argv[3])
    main()
