#!/bin/bash
# C30: builds the Python extension from /repo's working tree and runs the DB-API monitor.
TIER="${1:-quick}"
ROOT="$(cd "$(dirname "$0")/.." && pwd)"
LOG="$ROOT/target/py_build.log"
mkdir -p "$ROOT/target/py/mod"
if ! (cd /repo && RUSTC_WRAPPER= CARGO_NET_OFFLINE=true CARGO_TARGET_DIR="$ROOT/target/py" cargo build --offline -p vibesql-python-bindings >"$LOG" 2>&1); then
  echo "INCONCLUSIVE python extension build failed (see $LOG)"
  grep -E "^error" -A8 "$LOG" | head -40
  exit 2
fi
cp -f "$ROOT/target/py/debug/libvibesql.so" "$ROOT/target/py/mod/vibesql.so" || { echo "INCONCLUSIVE extension library not found"; exit 2; }
case "$TIER" in
  --replay=*) exec python3 "$ROOT/checks.d/c30_driver.py" replay "$ROOT" "${TIER#--replay=}" ;;
esac
exec python3 "$ROOT/checks.d/c30_driver.py" "$TIER" "$ROOT"
