#!/bin/bash
# C04: the behavioural twin check, plus (thorough only) a ThreadSanitizer pass over one
# forced-parallel case with a two-partition hash-join build.
TIER="${1:-quick}"; BIN="$2"
ROOT="$(cd "$(dirname "$0")/.." && pwd)"
if [ "$TIER" != "thorough" ] || [ "${VV_SKIP_SANITIZER:-0}" = "1" ]; then exec "$BIN" run C04 "$TIER"; fi
SEED="${VERIF_SEED:-1}"
TS="$ROOT/target/tsan"; OUT="$ROOT/target/tsan_c04"; mkdir -p "$OUT"; rm -f "$OUT"/report* "$OUT"/shard.json "$OUT"/status
(
  cd "$ROOT/harness" || exit 0
  if ! RUSTFLAGS="-Zsanitizer=thread --cfg vibesql_verif" CARGO_TARGET_DIR="$TS" CARGO_NET_OFFLINE=true \
       cargo +nightly build -Zbuild-std --target x86_64-unknown-linux-gnu --offline -j 8 >"$OUT/build.log" 2>&1; then
    echo "not-run: ThreadSanitizer build failed (see $OUT/build.log)" > "$OUT/status"; exit 0
  fi
  TB="$TS/x86_64-unknown-linux-gnu/debug/vverif"
  VV_C04_SANITIZER=1 VV_CPU_BUDGET_SCALE=30 VV_RUN_TMP="$OUT" \
  TSAN_OPTIONS="halt_on_error=0 exitcode=0 log_path=$OUT/report" \
    timeout 2400 "$TB" shard C04 thorough "$SEED" $((SEED % 1600)) 1600 0 "$OUT/shard.json" >"$OUT/run.log" 2>&1
  rc=$?
  if [ -f "$OUT/shard.json" ]; then echo "ran rc=$rc" > "$OUT/status"; else echo "not-run: sanitizer shard ended without a result (rc=$rc, see $OUT/run.log)" > "$OUT/status"; fi
) &
TSPID=$!
"$BIN" run C04 thorough; RC=$?
wait $TSPID
python3 - "$ROOT" "$OUT" "$SEED" <<'PY'
import json,sys,glob,os,re
root,out,seed=sys.argv[1],sys.argv[2],sys.argv[3]
status=open(os.path.join(out,'status')).read().strip() if os.path.exists(os.path.join(out,'status')) else 'not-run: no status'
reports=[]
for f in sorted(glob.glob(os.path.join(out,'report*'))):
    txt=open(f,errors='replace').read()
    reports += re.findall(r'WARNING: ThreadSanitizer: [^\n]*', txt)
info={"tool":"ThreadSanitizer (nightly -Zsanitizer=thread, -Zbuild-std)","status":status,"reports":len(reports),"report_kinds":sorted(set(reports))[:10]}
sj=os.path.join(out,'shard.json')
if os.path.exists(sj):
    d=json.load(open(sj)); info["evaluations"]=d.get("evaluations"); info["parallel_operators_run"]={k:v for k,v in (d.get("counters") or {}).items() if k.startswith("queries-using")}
    info["violations_in_sanitizer_run"]=len(d.get("violations",[]))
ev=os.path.join(root,'evidence/C04.json')
e=json.load(open(ev)); e["coverage"]["sanitizer_tier"]=info; json.dump(e,open(ev,'w'),indent=1)
print(f"C04 sanitizer tier: {status}; ThreadSanitizer reports={len(reports)} evaluations={info.get('evaluations')}")
rc=0
if reports:
    os.makedirs(os.path.join(root,'replays/C04'),exist_ok=True)
    p=os.path.join(root,'replays/C04/tsan-report.json')
    json.dump({"property":"C04","sig":"thread-sanitizer-report","seed":int(seed),"tier":"thorough","reports":sorted(set(reports)),"raw":[open(f,errors='replace').read()[:20000] for f in sorted(glob.glob(os.path.join(out,'report*')))[:3]],"rerun":"VV_C04_SANITIZER=1 with the TSan build, see checks.d/C04.sh"},open(p,'w'),indent=1)
    print(f"VIOLATION property=C04 replay={p}"); rc=1
sys.exit(rc)
PY
PRC=$?
if [ $PRC -ne 0 ]; then exit 1; fi
exit $RC
