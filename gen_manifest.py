#!/usr/bin/env python3
"""Regenerate MANIFEST.json from the table below (keeps it valid and in sync with the checks)."""
import json, subprocess, sys
props = [json.loads(l) for l in open('/verif/properties.jsonl')]
ids = [p['id'] for p in props]

# id -> (level, technique, text, note)
CLAIMED = {
 "C30": ("exploration", "twin-connection differential over the compiled Python extension: bound parameters vs the monitor's own literal substitution, plus read-back equality, after every call of random call histories",
         "The extension is built from /repo's working tree and driven from Python with histories of execute() calls that reuse SQL texts with different tuples; outcome class, fetched rows, table contents and read-back values are compared after every call.",
         "Placeholders inside string literals, delimited identifiers and -- comments are text; bool values are compared by Python equality."),

 "C31": ("exploration", "round-trip and reference-record oracle over the CLI's own \\copy code (MetaCommand::parse + SqlExecutor::handle_copy compiled into the harness), with canary table and table-list monitor",
         "Hostile record sets are exported and re-imported, and harness-written RFC 4180 CSV / JSON files (incl. hostile keys) are imported; the destination table read through the storage API must equal the records and nothing else may change.",
         "The CLI modules are driven in-process rather than through a spawned binary; an empty unquoted CSV field may read as NULL or ''."),

 "C04": ("exploration", "in-process twin execution: every query run with all parallelism decisions forced off and twice forced on (hook switches), on rayon pools of 1-16 workers; results compared as sequences/multisets, parallel operators read from probes",
         "14+ query shapes that reach the parallel scan/filter/sort/aggregate/join operators over tables of up to 3600 rows; sequential vs parallel results and two parallel repetitions must agree.",
         "Configurations are selected through vibesql_verif switches rather than the once-per-process PARALLEL_THRESHOLD variable; only scheduler interleavings that occurred are covered."),

 "C16": ("exploration", "twin execution (in-memory indexes vs memory_budget=0 SpillToDisk) with statement-outcome, probe-result and structural (index entry set via verif_dump) comparison",
         "The same DML history runs on both databases; every outcome, 17 index-served probes and the complete (key -> row ids) content of every index are compared; the backend of each index is read back and counted.",
         "The disk-backed branch is reached through the memory budget, not the 100k-row threshold."),

 "C24": ("exploration", "catch_unwind panic monitor + exact i128 arithmetic model + usability probe after every statement, over boundary-value and hostile statements",
         "Sessions of boundary-value integer expressions, aggregates and 26 hostile statement families plus generated multi-table queries with boundary literals; panics, integer results differing from the exact value, and a database that stops answering are violations.",
         "Built with overflow checks: a wrap shows as a panic. Results of hostile string/cast families are not modelled."),

 "C34": ("exploration", "audit-table event log written by trigger bodies (tag, OLD image, NEW image) checked against a firing model after every statement",
         "Random trigger sets (timing x event x granularity x WHEN, failing bodies) and DML histories; the audit rows of each statement are compared with the expected multiset of firings and row images, and failing triggers must fail the statement without changing the table.",
         "Triggers are created through the executor API; UPDATE OF on an assigned-but-unchanged column may or may not fire."),

 "C33": ("exploration", "schema model (tables, columns, rows, indexes, constraints) + audit of catalog listing, storage listing, both index registries, declared columns and probe queries after every statement",
         "Random DDL/DML histories with name reuse and identifier-case variants; each statement's outcome and the complete observable schema state are compared with the model after every step.",
         "Outcomes on which SQL engines legitimately differ (case-sibling names, index-name scope, dropping a column in use) are accepted either way; the resulting state must still be coherent."),

 "C12": ("exploration", "orphan scan + executable referential-action model (cascade closure, set null/default, end-of-statement restrict) compared with the engine's tables after every statement",
         "Random parent/child histories over five schema kinds (chain, self-reference, composite key, two parents, UNIQUE-column reference) and all ON DELETE/UPDATE actions; after each statement the tables are read back and checked for orphans, against the model state, and for unchanged data after a rejection.",
         "Row-at-a-time vs end-of-statement differences are marked ambiguous and decide nothing."),

 "C26": ("exploration", "privilege-set reference model + canary scan (values unique per table) + unchanged-state check, under random GRANT/REVOKE histories",
         "Statements of 25 shapes are issued by a non-admin role between random GRANT/REVOKE steps; success without the needed privilege, leaked canaries, data changes by failed statements and denials despite held privileges are violations.",
         "View access is accepted with SELECT on the view or its base table."),

 "C25": ("exploration", "every cache hit is compared with uncached execution at the moment of the hit (twin execution), under random read/write interleavings",
         "The adapter's caching protocol is reproduced and every hit is checked against the current database for query texts and table references chosen to stress key normalisation and dependency extraction.",
         "Protocol reproduced from tests/sqllogictest/db_adapter.rs."),

 "C18": ("exploration", "reload twin: original vs re-loaded database compared on metadata, bit-exact rows, index definitions and index-driven queries",
         "Databases over all supported column types, one hard value class per case, with user indexes and prior DML are saved and loaded in all three native formats and compared with the original.",
         "Original in-memory database is the oracle."),
 "C19": ("exploration", "reload twin for the SQL dump: original vs load_sql_dump(save_sql_dump(db)) compared on column names and bit-exact rows",
         "The same generated databases go through the SQL dump writer and reader; any load error or row difference is a violation.",
         "Column type spelling is not compared."),

 "C13": ("exploration", "snapshot-equality monitor over listings, row multisets and index-driven probe queries around BEGIN .. ROLLBACK/COMMIT",
         "Observables taken before BEGIN (resp. before COMMIT) are compared with those after ROLLBACK (resp. COMMIT) for random in-transaction histories of DML and DDL.",
         "Six fixed probe queries stand for 'any query, including index-driven ones'."),
 "C14": ("exploration", "stack-of-snapshots reference model for SAVEPOINT / RELEASE / ROLLBACK TO inside one transaction",
         "Random interleavings of DML and savepoint operations are checked against a stack model: table contents after ROLLBACK TO, s stays usable, later savepoints destroyed, RELEASE changes no data, unknown names rejected.",
         "Live savepoint names are kept unique and only the top savepoint is released (the statement leaves other cases open)."),

 "C09": ("exploration", "pre-state clone + the engine's own SELECT as reference for which rows / which new values; probes for PK fast path, bulk transfer, truncate path",
         "Random DML histories over five table shapes; every UPDATE/DELETE/INSERT is checked against the rows and SET values that SELECT reports on a clone of the pre-state, and everything else must be unchanged.",
         "Row identity via the id column."),
 "C10": ("exploration", "invariant walker over the table contents after every statement (accepted or rejected)",
         "After every statement of random histories (incl. REPLACE, ON DUPLICATE KEY, key-changing UPDATE, TRUNCATE, INSERT..SELECT, append-mode patterns) the table is read back and PK / UNIQUE / unique-index / NOT NULL / CHECK are evaluated by the harness.",
         "Rejections of legal statements are not judged."),
 "C11": ("fault_enumeration", "snapshot-equality monitor (rows, index-driven probe queries) on every failed statement; failing row enumerated at every position",
         "168 enumerated statements (k = 2..5 rows, every failing position, 4 fault kinds, VALUES / SELECT-UNION / UPDATE forms) plus every rejected statement of random histories are compared with the pre-statement clone.",
         "Physical row order is not compared; accepted violating statements are C10's."),
 "C15": ("exploration", "invariant walker over public index accessors, compared with the definition and with rebuild-on-a-clone",
         "After every statement the PK hash index is compared with {key(row_i) -> i} from scan(), and PK / UNIQUE hash indexes and user indexes with a rebuild on a clone.",
         "Rebuild on a clone is the reference the property itself names."),

 "C05": ("exploration", "rewrite-family monitor with a definitional nested-loop model (3VL) and join-algorithm probes",
         "Members of four rewrite families (inner join, semi join, NULL-aware anti join, plain anti join; table order, join syntax, IN/EXISTS/ANY/NOT IN/NOT EXISTS/LEFT JOIN IS NULL forms, derived-table wrapping) are each compared with the harness's nested evaluation over the inserted rows.",
         "Model covers equi-join keys on INTEGER columns with an optional local predicate."),
 "C32": ("exploration", "twin monitor: the same outer query through a view, through a CTE and with the definition inlined, across DML rounds",
         "View and CTE references are compared with the inlined derived table for four definition kinds and six outer shapes, before and after INSERT/UPDATE/DELETE on the base tables.",
         "The inlined form is the oracle."),

 "C08": ("exploration", "independent sort/slice oracle in the harness over the engine's own unordered result, with and without usable indexes",
         "The harness sorts the unordered rows (keys appended as output columns) with the documented rule and checks sortedness, slice bounds, key sequence, membership and permutation of every ORDER BY / LIMIT / OFFSET statement, plus DISTINCT exactly-once and DISTINCT-before-LIMIT.",
         "NULLs last for ASC and DESC is taken as the documented rule; tie-group internal order is free."),

 "C06": ("exploration", "metamorphic monitor: ternary-logic partitioning of the engine against itself, with predicate shrinking",
         "Q is compared with the union of Q AND p, Q AND NOT p, Q AND (p) IS NULL in plain, DISTINCT, aggregate and GROUP BY forms, and COUNT(*) WHERE p with the number of TRUE values of SELECT (p); indexes make pushdown and index-scan paths participate.",
         "The engine is its own oracle; cases in which a query errors are skipped and counted."),

 "C03": ("exploration", "twin monitor: same statement on the columnar path and with the verif hook's no_columnar switch, gated by the columnar probe",
         "Every generated single-table aggregate statement is executed twice on the same build (columnar gate open / forced off) over tables sized around SIMD boundaries with all NULL densities; results must agree and the three explicit clauses of the statement are asserted on the columnar path.",
         "Only statements on which the columnar probe fired count; the row path is the oracle (C07 cross-checks it against a model)."),
 "C07": ("exploration", "executable aggregate/grouping model (naive, exact arithmetic) as oracle, on both execution paths",
         "Expected results are computed from the inserted rows by a 100-line model of the SQL definitions and compared with the engine with the columnar gate open and closed.",
         "Model written from the SQL definitions in the property statement; 1e-9 relative tolerance for non-integral results."),

 "C02": ("exploration", "twin-database monitor (same history with and without user indexes) with index_scan probe and order checker",
         "Twin databases receive the same DML history; one of them has 1-3 user indexes of every kind. Table contents, every query's multiset (sequence where ORDER BY is total) and the requested order are compared; only queries for which the index_scan probe fired count as non-trivial.",
         "The index-free twin is the oracle; literals and predicates come from the property's list."),

 "C01": ("exploration", "differential monitor against a reference engine (bundled SQLite via rusqlite) with AST-level shrinking",
         "Generated schemas/data are loaded into vibesql and SQLite; generated queries over the shared subset are compared as multisets (sequences when ORDER BY names every output column), INTERSECT/EXCEPT ALL against multiset algebra over the reference's operand results. Failing cases are shrunk and signed by discrepancy kind + feature tags.",
         "SQLite is trusted; only the calibrated subset is compared (no division, LIKE, string-number comparison, large integers)."),

 "C20": ("fault_enumeration", "fault enumeration over every byte offset of valid files; monitors: catch_unwind, counting global allocator, process-level abort/CPU-budget attribution",
         "Every offset of 8 valid files (2 databases x binary/compressed/JSON/SQL dump) is damaged by truncation, byte overwrite, bit flips, length-field overwrites and byte insertion/deletion and loaded through the format loader and the sniffing loader; random and spliced byte strings are added. The truncation section is exhaustive for those files.",
         "Files are a few hundred bytes to a few KiB; allocation monitor sees the largest single request only; hang = 20 s CPU per offset."),

 "C23": ("exploration", "mutation-based totality monitor: catch_unwind + process-level crash/CPU-budget attribution per input",
         "Tens of thousands of SQL texts harvested from the repository's own tests are mutated (token edits, truncation, splicing, nesting amplification, huge literals, unterminated openers, Unicode/NUL injection) and parsed; panics are caught in-process, stack overflows and CPU-budget overruns are attributed to the running input by the shard runner. Nine directed deep-nesting inputs witness the listed stack-overflow finding.",
         "Parser runs on the shard's 8 MiB main thread; 'never hangs' is restated as <= 4 s CPU per <= 64 KiB input."),

 "C17": ("exploration", "reference-model monitor (BTreeMap multimap) on real page files + structural invariant walker over the verif_dump hook",
         "Random operation histories on empty and bulk-loaded trees over five key schemas (degree 5..~200) are checked answer-by-answer against an ordered multimap; the persisted node structure is dumped every 40 operations and checked for sorted keys, separator bounds, uniform leaf depth and leaf-chain completeness; the metadata page is re-loaded at the end.",
         "Row ids per key are kept small in random cases because of the listed page-overflow finding; the file is not reopened through NativeStorage::open_file (it truncates)."),

 "C22": ("exploration", "round-trip and totality monitor (catch_unwind oracle) over a component grid + mutated texts, incl. SQL CAST/literal route",
         "Every grid value is formatted and re-parsed (exhaustive over the stated component grid); random valid values and thousands of mutated texts are fed to every temporal FromStr / Interval::new and to SQL CAST / typed literals under catch_unwind. Held = no mismatch and no panic on what was generated.",
         "Validity of dates is the harness's Gregorian rule; only panics (not wrong acceptances) are judged for hostile strings."),
 "C27": ("exploration", "framing monitor: bytes consumed per decode call vs declared frame end, on well-formed streams, all prefixes and hostile frames",
         "decode/decode_startup (the server's own source, compiled via #[path]) are driven with concatenated well-formed frames, every strict prefix, and hostile first frames followed by a well-formed one; the monitor checks consumption against the declared length, message equality and untouched followers.",
         "connection.rs (tokio loop) is not exercised; under-consumption of malformed frames is not judged."),
 "C28": ("exploration", "independent PostgreSQL v3 frame parser as oracle over randomly generated BackendMessage values",
         "Every BackendMessage variant with arbitrary field contents is encoded and re-parsed by an independent parser that demands one frame, exact length and identical fields.",
         "Strings carried as C strings are generated without NUL (the wire format cannot represent it); the parser is the author's reading of the protocol."),
 "C29": ("exploration", "credential model as oracle (independent PostgreSQL MD5 computation) over generated stores and attempts",
         "Stores with Argon2, {MD5} and foreign-format secrets are probed with exact, near-miss and cross-user credentials and 12 kinds of MD5 responses; every verdict is compared with the model.",
         "argon2 and md-5 crates trusted; unprefixed-but-correct MD5 hex is don't-care."),

 "C21": ("exploration", "law checker over an enumerated value pool + SQL-level consequence monitor (runtime oracle)",
         "Every pair and triple of a fixed pool covering all SqlValue variants and special values is checked against the algebraic laws (exhaustive over the pool), pools with random extras add more; DISTINCT/GROUP BY/UNION are then observed on tables holding those values. Held = no law broken on the enumerated pool; says nothing about values outside the pool's classes.",
         "Trusts std's DefaultHasher as representative of any Hasher; pool classes chosen by hand."),
}
NOT_YET = "monitor not built yet in this round (design in DESIGN.md section 7); will be claimed once its check is silent and sound on the unchanged tree"

hook_commits = subprocess.run(["git","-C","/repo","log","--format=%H %s"],capture_output=True,text=True).stdout.splitlines()
hooks = [l.split()[0] for l in hook_commits if l.split(' ',1)[1].startswith('verif hooks')]

m = {
 "version": 1,
 "setup_cmd": "./setup.sh",
 "hooks": {
   "guard": "--cfg vibesql_verif",
   "enable": "RUSTFLAGS='--cfg vibesql_verif' via /verif/harness/.cargo/config.toml; the harness crate has path dependencies on /repo/crates/*, so every ./check rebuilds from /repo's working tree with hooks on",
   "baseline_off_cmd": "cd /repo && RUSTC_WRAPPER= RUST_MIN_STACK=67108864 cargo test --workspace --no-fail-fast --offline",
   "source_commits": hooks,
   "add_only": True,
 },
 "engines": [{"name":"vverif","path":"/verif/harness","serves_properties":sorted(x for x in CLAIMED if x != "C30"),"kind_free_text":"Rust harness: client-boundary session, generators, twin/model/reference oracles, probe counters, sharded runner with per-case CPU watchdog and crash attribution"},
             {"name":"c30_driver","path":"/verif/checks.d","serves_properties":["C30"],"kind_free_text":"Python driver (checks.d/c30_driver.py) over the compiled vibesql Python extension, built from /repo's working tree by checks.d/C30.sh; 16 worker processes, per-case seeded RNG"}],
 "checks": [],
 "not_applicable": [],
 "notes": "Technique family: runtime monitoring and sanitizers. Exit 0 = held on what was observed (KNOWN-FINDING lines for listed open findings), 1 = VIOLATION not listed in known_findings.json, 2 = inconclusive (never folded into pass or fail).",
}
for i in ids:
    if i in CLAIMED:
        lvl, tech, text, note = CLAIMED[i]
        m["checks"].append({
          "property_id": i,
          "quick_cmd": f"./check {i} quick",
          "thorough_cmd": f"./check {i} thorough",
          "evidence_file": f"/verif/evidence/{i}.json",
          "replay_cmd_template": "./check --replay {path}",
          "engine": "c30_driver" if i == "C30" else "vverif",
          "level_claimed": {"category": lvl, "text": text, "design_ref": f"DESIGN.md section 7, {i}"},
          "level_note": note,
          "technique": tech,
        })
    else:
        m["not_applicable"].append({"property_id": i, "reason": NOT_YET})
json.dump(m, open('/verif/MANIFEST.json','w'), indent=1)
print("claimed", len(m["checks"]), "not_applicable", len(m["not_applicable"]))
