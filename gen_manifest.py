#!/usr/bin/env python3
"""Regenerate MANIFEST.json from the table below (keeps it valid and in sync with the checks)."""
import json, subprocess, sys
props = [json.loads(l) for l in open('/verif/properties.jsonl')]
ids = [p['id'] for p in props]

# id -> (level, technique, text, note)
CLAIMED = {
 "C21": ("exploration", "law checker over an enumerated value pool + SQL-level consequence monitor (runtime oracle)",
         "Every pair and triple of a fixed pool covering all SqlValue variants and special values is checked against the algebraic laws (exhaustive over the pool), pools with random extras add more; DISTINCT/GROUP BY/UNION are then observed on tables holding those values. Held = no law broken on the enumerated pool; says nothing about values outside the pool's classes.",
         "Trusts std's DefaultHasher as representative of any Hasher; pool classes chosen by hand."),
}
NOT_YET = "monitor not built yet in this round (design in DESIGN.md section 7); will be claimed once its check is silent and sound on the unchanged tree"

hook_commits = subprocess.run(["git","-C","/repo","log","--format=%H %s"],capture_output=True,text=True).stdout.splitlines()
hooks = [l.split()[0] for l in hook_commits if l.split(' ',1)[1].startswith('verif hooks')]

m = {
 "version": 1,
 "setup_cmd": "./setup.sh",
 "hooks": {
   "guard": "--cfg vibesql_verif",
   "enable": "RUSTFLAGS='--cfg vibesql_verif' via /verif/harness/.cargo/config.toml; the harness crate has path dependencies on /repo/crates/*, so every ./check rebuilds from /repo's working tree with hooks on",
   "baseline_off_cmd": "cd /repo && RUSTC_WRAPPER= cargo test --workspace --no-fail-fast --offline",
   "source_commits": hooks,
   "add_only": True,
 },
 "engines": [{"name":"vverif","path":"/verif/harness","serves_properties":sorted(CLAIMED),"kind_free_text":"Rust harness: client-boundary session, generators, twin/model/reference oracles, probe counters, sharded runner with per-case CPU watchdog and crash attribution"}],
 "checks": [],
 "not_applicable": [],
 "notes": "Technique family: runtime monitoring and sanitizers. Exit 0 = held on what was observed (KNOWN-FINDING lines for listed open findings), 1 = VIOLATION not listed in known_findings.json, 2 = inconclusive (never folded into pass or fail).",
}
for i in ids:
    if i in CLAIMED:
        lvl, tech, text, note = CLAIMED[i]
        m["checks"].append({
          "property_id": i,
          "quick_cmd": f"./check {i} quick",
          "thorough_cmd": f"./check {i} thorough",
          "evidence_file": f"/verif/evidence/{i}.json",
          "replay_cmd_template": "./check --replay {path}",
          "engine": "vverif",
          "level_claimed": {"category": lvl, "text": text, "design_ref": f"DESIGN.md section 7, {i}"},
          "level_note": note,
          "technique": tech,
        })
    else:
        m["not_applicable"].append({"property_id": i, "reason": NOT_YET})
json.dump(m, open('/verif/MANIFEST.json','w'), indent=1)
print("claimed", len(m["checks"]), "not_applicable", len(m["not_applicable"]))
